"""ENUMALL (C13), LATTICE-SHAPE / SPACEOPT (C12, C01, C02), CACHE / ORDERDET (C15),
PARALLEL (C11)."""
from effects import Effects
from facts import EngineError
from flow import calls_named, must_pass, result_exits, bool_switch_targets, stores_to
from mir import AP, FnA, callee_of, callee_paths, op_place, op_const, strip_generics
from r_viterbi import base_local
from sym import Sym, show, short, strip_casts


def fn_loc(crate, p):
    f = crate.fns[p]
    return "%s:%s" % (f.file, f.line)


def chain_of(fa, op, depth=0):
    """Names of the calls an operand's value flows through, innermost last, with the access path
    of the innermost receiver: (['collect','map','enumerate','iter'], AP)."""
    names = []
    pl = op_place(op)
    cur = pl["l"] if pl else None
    last_op = op
    for _ in range(30):
        if cur is None:
            break
        d = fa.single_def(cur)
        if d is None:
            break
        if d[2] == "call":
            t = d[3]
            c = callee_of(t)
            names.append(strip_generics((c.get("resolved") or c)["path"]).rsplit("::", 1)[-1] if c else "?")
            if not t["args"]:
                break
            last_op = t["args"][0]
            p0 = op_place(last_op)
            if p0 is None:
                break
            if any(e != "*" for e in p0["p"]):
                break
            cur = p0["l"]
        elif d[2] == "assign":
            rv = d[3]
            p0 = op_place(rv["op"]) if rv["k"] == "use" else rv["place"] if rv["k"] == "ref" else None
            if p0 is None:
                break
            last_op = {"c": p0}
            if any(e != "*" for e in p0["p"]):
                break
            cur = p0["l"]
        else:
            break
    return names, last_op


def enumall(ctx):
    crate = ctx.facts("A").lib
    E = Effects(crate)
    p = "vibrato::dictionary::mapper::ConnIdCounter::compute_probs"
    fa = E.fa(p)
    S = Sym(E, fa)
    # the returned tuple
    ret = None
    for b, i, s in fa.stmts():
        if "lhs" in s and s["lhs"]["l"] == 0 and not s["lhs"]["p"] and s["rv"]["k"] == "agg":
            ret = s["rv"]
    if ret is None or len(ret["ops"]) != 2:
        raise EngineError("ENUMALL: return tuple of compute_probs not found")
    for side, op, fld in (("left", ret["ops"][0], "lid_count"), ("right", ret["ops"][1], "rid_count")):
        pl = op_place(op)
        l = (base_local(fa, op) or (pl["l"],))[0]
        # definition: collect(map(enumerate(iter(self.<fld>)), closure))
        names, src = chain_of(fa, op)
        src_ap = E.ap_operand(fa, src)
        ok_src = src_ap is not None and src_ap.root == ("arg", 1) and src_ap.proj[:1] == (fld,)
        allowed = {"collect", "map", "enumerate", "iter", "deref", "into_iter"}
        extra = [n for n in names if n not in allowed]
        ok_chain = "enumerate" in names and "collect" in names and not extra
        ctx.ob("ENUMALL", "compute_probs|%s|enumerates-whole-counter" % side, ok_src and ok_chain,
               fn_loc(crate, p),
               "%s result is built by enumerating the whole `%s` table (index = id), without "
               "filter/skip/take/dedup" % (side, fld) if ok_src and ok_chain else
               "%s result is not a plain enumeration of `%s` (chain %s over %s): ids can be "
               "missing, repeated or shifted" % (side, fld, names, src_ap))
        # mutations of the vector between construction and return
        muts = []
        for b, t in fa.calls():
            if not t["args"]:
                continue
            a0 = op_place(t["args"][0])
            if a0 is None:
                continue
            bl = base_local(fa, t["args"][0])
            if bl and (bl[0] == l or same_root(fa, t["args"][0], l)) and \
                    t.get("arg_tys", [""])[0].startswith("&mut"):
                c = callee_of(t)
                muts.append((strip_generics((c.get("resolved") or c)["path"]).rsplit("::", 1)[-1], b, t))
        names_m = [m[0] for m in muts]
        drains = [m for m in muts if m[0] == "drain"]
        ok_drain = len(drains) == 1
        if ok_drain:
            e = S.operand(drains[0][2]["args"][1])
            ok_drain = e[0] == "agg" and str(e[1]).endswith("RangeTo::RangeTo") and \
                e[2].get("end") == ("const", 1)
        other = [n for n in names_m if n not in ("drain", "sort_unstable_by", "sort_by", "sort_unstable_by_key",
                                                 "sort_by_key", "deref_mut", "as_mut_slice", "sort_by_cached_key")]
        ctx.ob("ENUMALL", "compute_probs|%s|only-id0-removed" % side, ok_drain and not other,
               fn_loc(crate, p),
               "exactly the entry of id 0 is removed (`drain(..1)`) and the list is only sorted "
               "afterwards: every other id appears exactly once" if ok_drain and not other else
               "the %s list is modified by %s between enumeration and return (expected exactly "
               "one drain(..1) and a sort)" % (side, names_m))
        # the closure keeps the index as first component
        for b, t in fa.calls():
            if cname(t) == "map":
                n2, s2 = chain_of(fa, {"c": {"l": t["dest"]["l"], "p": []}})
                sap = E.ap_operand(fa, s2)
                if sap is not None and sap.proj[:1] == (fld,):
                    cl = E.closure_of_operand(fa, t["args"][1])
                    if cl:
                        cfa = E.fa(cl[0])
                        CS = Sym(E, cfa)
                        rete = CS.place({"l": 0, "p": []})
                        okc = rete[0] == "agg" and rete[2].get("0", ("?",))[0] == "ap" and \
                            rete[2]["0"][1].root == ("arg", 2) and rete[2]["0"][1].proj[-1:] == ("#0",)
                        ctx.ob("ENUMALL", "compute_probs|%s|id-is-enumeration-index" % side, okc,
                               fn_loc(crate, cl[0]),
                               "each entry's id is the enumeration index" if okc else
                               "the id component of an entry is %s" % show(rete))


def cname(t):
    c = callee_of(t)
    return strip_generics((c.get("resolved") or c)["path"]).rsplit("::", 1)[-1] if c else "?"


def lattice_shape(ctx):
    """build_lattice_inner: reset first, words linked at start_node and started at start_word,
    EOS connected on every path from the last start_node."""
    crate = ctx.facts("A").lib
    E = Effects(crate)
    p = "vibrato::tokenizer::Tokenizer::build_lattice_inner"
    fa = E.fa(p)
    S = Sym(E, fa)
    rets = fa.return_blocks()
    resets = calls_named(fa, "reset")
    ok = len(resets) == 1
    if ok:
        rb, rt = resets[0]
        a = [S.operand(x) for x in rt["args"]]
        ok = a[0] == ("ap", AP(("arg", 3))) and strip_casts(a[1]) in (
            ("ap", AP(("arg", 2), ("chars",))),) or (a[1][0] == "call" and short(a[1][1]) in ("len_char", "len"))
        others = [b for b, t in fa.calls() if cname(t) in ("add_lattice_edges", "insert_eos", "has_previous_node")]
        ok = ok and all(fa.dominates(rb, b) for b in others)
    ctx.ob("LATTICE", "build_lattice_inner|reset-first", ok, fn_loc(crate, p),
           "the lattice is reset for the sentence length before anything is inserted" if ok else
           "build_lattice_inner does not reset the lattice (for sent.len_char()) before use")
    eos = calls_named(fa, "insert_eos")
    ok = len(eos) == 1 and all(must_pass(fa, r, {eos[0][0]}) for r in rets)
    ctx.ob("LATTICE", "build_lattice_inner|eos-on-every-path", ok, fn_loc(crate, p),
           "every path ends by connecting EOS" if ok else "EOS is not inserted on every path")
    # the two position variables, identified by where they go (not by their names): the linking
    # boundary is argument 3 of add_lattice_edges, the word start argument 4
    edges0 = calls_named(fa, "add_lattice_edges")
    sn, sw = [], []
    if len(edges0) == 1:
        b3 = base_local(fa, edges0[0][1]["args"][3])
        b4 = base_local(fa, edges0[0][1]["args"][4])
        if b3 and b4 and b3[0] != b4[0]:
            sn, sw = [b3[0]], [b4[0]]
    if not sn:
        raise EngineError("LATTICE: the linking boundary / word start variables were not identified")
    if eos and sn:
        bl = base_local(fa, eos[0][1]["args"][1])
        ok = bl is not None and bl[0] in sn
        ctx.ob("LATTICE", "build_lattice_inner|eos-from-start_node", ok, fa.loc(eos[0][0]),
               "EOS is connected from the last linking boundary (start_node), so trailing ignored "
               "spaces do not matter" if ok else
               "EOS is connected from %s, not from start_node" % show(S.operand(eos[0][1]["args"][1])))
    edges = calls_named(fa, "add_lattice_edges")
    ok = len(edges) == 1
    if ok and sn and sw:
        b, t = edges[0]
        b3 = base_local(fa, t["args"][3])
        b4 = base_local(fa, t["args"][4])
        ok = b3 and b4 and b3[0] in sn and b4[0] in sw and \
            S.operand(t["args"][1]) == ("ap", AP(("arg", 2))) and \
            S.operand(t["args"][2]) == ("ap", AP(("arg", 3)))
    ctx.ob("LATTICE", "build_lattice_inner|edges(start_node,start_word)", bool(ok), fn_loc(crate, p),
           "candidates are added with (start_node, start_word) in this order" if ok else
           "add_lattice_edges is not called with (sent, lattice, start_node, start_word)")
    # the reachability test looks at start_node
    hp = calls_named(fa, "has_previous_node")
    ok = len(hp) == 1 and sn and (base_local(fa, hp[0][1]["args"][1]) or (None,))[0] in sn
    ctx.ob("LATTICE", "build_lattice_inner|reachability-at-start_node", bool(ok), fn_loc(crate, p),
           "a position is processed only if some node ends at its linking boundary (start_node)"
           if ok else "the reachability test does not look at start_node")
    # space skipping: groupable(start_node) added to start_word under the SPACE test on start_node
    def position_calls(name):
        """[(block in build_lattice_inner, operand there that is the position argument)] of the
        calls to Sentence::<name> made here or in a helper of this crate called from here with
        the position handed through as a parameter"""
        out = [(b, t["args"][1], fa, b) for b, t in calls_named(fa, name) if len(t["args"]) > 1]
        for b, t in fa.calls():
            c = callee_of(t)
            hp = (c.get("resolved") or c)["path"] if c else None
            h = crate.fns.get(hp) if hp else None
            if h is None or not h.body or h.krate != "vibrato" or cname(t) in (
                    "add_lattice_edges", "insert_eos", "has_previous_node", "reset", name):
                continue
            hfa = E.fa(hp)
            for hb, ht in calls_named(hfa, name):
                if len(ht["args"]) < 2:
                    continue
                o = hfa.origin(ht["args"][1])
                if o[0] == "arg" and o[1] - 1 < len(t["args"]):
                    out.append((b, t["args"][o[1] - 1], hfa, hb))
        # ... or in a closure written here (`space_cateset.is_some_and(|s| .. char_info(start_node) ..)`)
        # with the position captured
        for b, i, s0 in fa.stmts():
            rv0 = s0.get("rv") or {}
            if rv0.get("k") != "agg" or rv0.get("agg") != "closure" or rv0.get("closure") not in crate.fns:
                continue
            qfa = E.fa(rv0["closure"])
            for qb, qt in calls_named(qfa, name):
                if len(qt["args"]) < 2:
                    continue
                ap = E.ap_operand(qfa, qt["args"][1])
                if ap is not None and ap.root == ("arg", 1) and ap.proj and str(ap.proj[0]).startswith("#"):
                    k0 = int(str(ap.proj[0])[1:])
                    if k0 < len(rv0["ops"]):
                        out.append((b, rv0["ops"][k0], qfa, qb))
        return out
    gr = position_calls("groupable")
    ci = position_calls("char_info")
    ok = len(gr) == 1 and len(ci) == 1 and sn and \
        (base_local(fa, gr[0][1]) or (None,))[0] in sn and \
        (base_local(fa, ci[0][1]) or (None,))[0] in sn
    ctx.ob("LATTICE", "build_lattice_inner|space-run-from-start_node", bool(ok), fn_loc(crate, p),
           "the SPACE test and the length of the skipped run are both taken at start_node" if ok else
           "the SPACE test / skipped run length are not taken at start_node")
    # polarity of the SPACE test: the run is skipped exactly on the edge where
    # (categories of the character & the SPACE set) != 0
    if len(gr) == 1:
        gfa, gblk = gr[0][2], gr[0][3]
        GS = S if gfa is fa else Sym(E, gfa)
        tests = []
        for b in sorted(gfa.live_blocks()):
            t = gfa.term(b)
            if t["k"] != "switch":
                continue
            e = GS.operand(t["op"])
            if not (e[0] == "binop" and e[1] in ("Ne", "Eq")):
                continue
            a_, b_ = strip_casts(e[2]), strip_casts(e[3])
            x, z = (a_, b_) if (a_[0] == "binop" and a_[1] == "BitAnd") else (b_, a_)
            if not (x[0] == "binop" and x[1] == "BitAnd"):
                continue
            txt = show(x)
            if "cate_idset(" not in txt or "space_cateset" not in txt:
                continue
            f_t, t_t = bool_switch_targets(t)
            if z == ("const", 0):
                nonzero_t, zero_t = (t_t, f_t) if e[1] == "Ne" else (f_t, t_t)
            elif "space_cateset" in show(z) and "cate_idset(" not in show(z):
                # (categories & set) == set: the set is a single bit (1 << id), same test
                nonzero_t, zero_t = (t_t, f_t) if e[1] == "Eq" else (f_t, t_t)
            else:
                continue
            tests.append((b, nonzero_t, zero_t))
        if not tests:
            # the test computed by a closure of an Option combinator and branched on here:
            # `let is_space = self.space_cateset.is_some_and(|s| (cate_idset & s) != 0); if is_space ..`
            for b in sorted(gfa.live_blocks()):
                t = gfa.term(b)
                if t["k"] != "switch":
                    continue
                o = gfa.origin(t["op"])
                if o[0] != "call":
                    continue
                nm = (callee_of(o[2]) or {}).get("name")
                if nm not in ("is_some_and", "map_or") or len(o[2]["args"]) < 2:
                    continue
                if nm == "map_or" and (op_const(o[2]["args"][1]) or {}).get("int") != 0:
                    continue
                rcv = show(GS.operand(o[2]["args"][0]))
                cl_ = E.closure_of_operand(gfa, o[2]["args"][-1])
                if cl_ is None or "space_cateset" not in rcv:
                    continue
                cfa_ = E.fa(cl_[0])
                r_ = Sym(E, cfa_).place({"l": 0, "p": []})
                if r_[0] == "binop" and r_[1] == "Ne" and ("const", 0) in (r_[2], r_[3]):
                    x_ = strip_casts(r_[2] if r_[3] == ("const", 0) else r_[3])
                    if x_[0] == "binop" and x_[1] == "BitAnd" and "cate_idset(" in show(x_) and \
                            any(y == ("ap", AP(("arg", 2))) for y in (strip_casts(x_[2]), strip_casts(x_[3]))):
                        f_t, t_t = bool_switch_targets(t)
                        tests.append((b, t_t, f_t))
        okp = len(tests) == 1
        why = "%d tests of (categories & SPACE set) against 0 found" % len(tests)
        if okp:
            tb, nz, zz = tests[0]
            on_nz = gblk in gfa.reachable(nz, avoid={zz})
            on_z = gblk in gfa.reachable(zz, avoid={nz})
            okp = on_nz and not on_z
            why = "the run length is taken on the %s edge of the test" % (
                "zero (not a space)" if on_z and not on_nz else "both" if on_z else "neither")
            if okp:
                # ... and on every path: once the character is a space, nothing else (a second
                # condition, a constant) can stand in for the run length
                rest = gfa.reachable(nz, avoid={gblk}) if nz != gblk else set()
                if gfa is fa:
                    escapes = edges0[0][0] in rest or any(gfa.term(x)["k"] == "return" for x in rest)
                else:
                    escapes = any(gfa.term(x)["k"] == "return" for x in rest)
                if escapes:
                    okp = False
                    why = "on the is-space edge some path goes on without taking the run length " \
                          "(a further condition decides how much is skipped)"
        ctx.ob("LATTICE", "build_lattice_inner|space-run-skipped-iff-space", okp, gfa.loc(gblk),
               "the run is skipped exactly when (categories of the character & SPACE set) != 0" if okp else
               "the space run is not skipped exactly when the character belongs to SPACE (%s): "
               "non-space text would be skipped, or spaces tokenized" % why)
    # loop guard and the trailing-space exit: comparisons of the word start with the sentence length
    from r_cand import _lin
    eb = edges0[0][0]
    cmps = []
    for b in sorted(fa.dominators().get(eb, ())):
        t = fa.term(b)
        if t["k"] != "switch":
            continue
        e = S.operand(t["op"])
        if e[0] == "binop" and e[1] in ("Lt", "Le", "Gt", "Ge", "Eq", "Ne") and "len_char" in show(e):
            f_t, t_t = bool_switch_targets(t)
            to_edges_true = eb in fa.reachable(t_t, avoid={f_t})
            (lt, lc), (rt, rc) = _lin(e[2]), _lin(e[3])
            opn = e[1] if to_edges_true else {"Lt": "Ge", "Le": "Gt", "Gt": "Le", "Ge": "Lt", "Eq": "Ne", "Ne": "Eq"}[e[1]]
            pos_left = "len_char" not in lt
            cmps.append((b, opn, (rc - lc) if pos_left else (lc - rc), pos_left, show(e)))
    # (1) some dominating comparison establishes  pos - len < 0  (strictly inside the sentence)
    strict = [c for c in cmps if (c[3] and ((c[1] == "Lt" and c[2] == 0) or (c[1] == "Le" and c[2] == -1))) or
              (not c[3] and ((c[1] == "Gt" and c[2] == 0) or (c[1] == "Ge" and c[2] == 1)))]
    ctx.ob("LATTICE", "build_lattice_inner|loop-covers-every-position", bool(strict), fn_loc(crate, p),
           "candidates are generated while the word start is < len_char (every character position is "
           "visited)" if strict else
           "no dominating test establishes `word start < len_char` with offset 0 before candidates "
           "are generated (%s): the last position is skipped or one past the end is processed"
           % [c[4][:60] for c in cmps])
    # (2) after the skipped space run the position is compared with the length again
    grb = gr[0][0] if gr else None
    head = {c[0] for c in strict}
    after = [c for c in cmps if grb is not None and c[0] not in head and
             c[0] in fa.reachable(grb, avoid=head) and
             (c[1] in ("Ne", "Lt") and c[2] == 0 and c[3] or c[1] in ("Ne", "Gt") and c[2] == 0 and not c[3])]
    ctx.ob("LATTICE", "build_lattice_inner|trailing-spaces-end-the-sentence", bool(after), fn_loc(crate, p),
           "after a skipped space run the position is compared with len_char before candidates are "
           "generated" if after else
           "after skipping a space run the position is not compared with the sentence length: a "
           "sentence that ends in spaces generates candidates one past its end")


def spaceopt(ctx):
    crate = ctx.facts("A").lib
    E = Effects(crate)
    p = "vibrato::tokenizer::Tokenizer::ignore_space"
    fa = E.fa(p)
    S = Sym(E, fa)
    ok_b, err_b, _ = result_exits(fa)
    cid = calls_named(fa, "cate_id")
    ok = len(cid) == 1 and S.operand(cid[0][1]["args"][1]) == ("const", "SPACE")
    ctx.ob("SPACEOPT", "ignore_space|looks-up-SPACE", ok, fn_loc(crate, p),
           "the category to skip is resolved by the name \"SPACE\"" if ok else
           "ignore_space does not look up the category named SPACE")
    st = stores_to(E, fa, lambda ap: ap == AP(("arg", 1), ("space_cateset",)))
    some_stores = []
    for b, i, s in st:
        e = S.operand(s["rv"]["op"]) if s["rv"]["k"] == "use" else ("?",)
        some_stores.append((b, e))
    ok_some = any(e[0] == "agg" and str(e[1]).endswith("Option::Some") and
                  e[2]["0"][0] == "binop" and e[2]["0"][1] == "Shl" and e[2]["0"][2] == ("const", 1)
                  for b, e in some_stores)
    ok_none = any(e[0] == "agg" and str(e[1]).endswith("Option::None") for b, e in some_stores)
    ctx.ob("SPACEOPT", "ignore_space|sets-bit-of-SPACE", ok_some and ok_none, fn_loc(crate, p),
           "yes => space_cateset = Some(1 << id of SPACE); no => None" if ok_some and ok_none else
           "space_cateset is set to %s" % [show(e) for b, e in some_stores])
    # the Some store is only reachable when the lookup succeeded (? on the lookup result)
    if cid and some_stores:
        sb = [b for b, e in some_stores if e[0] == "agg" and str(e[1]).endswith("Option::Some")]
        ok = bool(sb) and all(fa.dominates(cid[0][0], b) for b in sb) and bool(err_b)
        ctx.ob("SPACEOPT", "ignore_space|undefined-SPACE-is-an-error", ok, fn_loc(crate, p),
               "when SPACE is not defined the option cannot be enabled (Err)" if ok else
               "ignore_space can enable skipping without a defined SPACE category")


def _borrows_local_value(fa, op):
    """`&mut it` where `it` is a local that owns its value (an iterator over the data, a cursor):
    advancing it changes the local, not what it was derived from."""
    pl = op_place(op)
    for _ in range(6):
        if pl is None or pl["p"]:
            return False
        d = fa.single_def(pl["l"])
        if d is None or d[2] != "assign":
            return False
        rv = d[3]
        if rv["k"] == "ref":
            q = rv["place"]
            if q["p"] == ["*"]:
                pl = {"l": q["l"], "p": []}          # a re-borrow `&mut *r`: what r refers to
                continue
            ty = fa.fn.locals[q["l"]]["ty"]
            return "*" not in q["p"] and not ty.startswith(("&", "*"))
        if rv["k"] != "use":
            return False
        pl = op_place(rv["op"])
    return False


def cache(ctx):
    """Every &mut self method of Model that may change `data` invalidates `merged_model`."""
    crate = ctx.facts("A").lib
    E = Effects(crate)
    MODEL = "vibrato::trainer::model::Model"
    n = 0
    for p, f in sorted(crate.fns.items()):
        if f.j.get("impl_self_adt") != MODEL or not f.body:
            continue
        ins = f.j.get("inputs", [])
        if not ins or not ins[0].startswith("&mut "):
            continue
        s = E.summary(p)
        fa = E.fa(p)
        mods = [e for e in s.may if e.kind in ("kill", "grow", "write") and e.ap.root == ("arg", 1)
                and e.ap.proj[:1] == ("data",)]
        # &mut borrows of data handed to callees outside the workspace / unmodelled
        muts = []
        for b, t in fa.calls():
            for a, ty in zip(t["args"], t.get("arg_tys", [])):
                ap = E.ap_operand(fa, a)
                if ap is not None and ap.root == ("arg", 1) and ap.proj[:1] == ("data",) and \
                        ty.startswith("&mut") and not _borrows_local_value(fa, a):
                    muts.append((b, t))
        if not mods and not muts:
            continue
        n += 1
        kills = [e for e in s.may if e.kind == "kill" and e.ap == AP(("arg", 1), ("merged_model",))]
        rets = fa.return_blocks()
        st = stores_to(E, fa, lambda ap: ap == AP(("arg", 1), ("merged_model",)))
        none_blocks = set()
        S = Sym(E, fa)
        for b, i, s2 in st:
            e = S.operand(s2["rv"]["op"]) if s2["rv"]["k"] == "use" else ("?",)
            if e[0] == "agg" and str(e[1]).endswith("Option::None"):
                none_blocks.add(b)
        first_mut = min([b for b, t in muts] + [10 ** 6])
        ok = bool(none_blocks) and all(
            any(fa.dominates(nb, mb) or must_pass(fa, r, {nb}) for nb in none_blocks)
            for mb, _ in muts for r in rets)
        ctx.ob("CACHE", "%s|invalidates-merged-model" % p, ok, fn_loc(crate, p),
               "%s changes the model data and resets the cached merged model on every path"
               % p.split("::")[-1] if ok else
               "%s mutates `data` (%s) without resetting `merged_model`: files written "
               "afterwards come from a stale merge" % (p.split("::")[-1],
                                                       sorted({cname(t) for b, t in muts})[:3]))
    ctx.floor("CACHE", "Model methods mutating data", n, 1)
    # read_model starts with an empty cache
    p = "vibrato::trainer::model::Model::read_model"
    fa = E.fa(p)
    S = Sym(E, fa)
    ok = False
    for b, i, s in fa.stmts():
        if "rv" in s and s["rv"]["k"] == "agg" and s["rv"].get("adt") == MODEL:
            e = S.operand(dict(zip(s["rv"]["fields"], s["rv"]["ops"]))["merged_model"])
            ok = e[0] == "agg" and str(e[1]).endswith("Option::None")
    ctx.ob("CACHE", "read_model|empty-cache", ok, fn_loc(crate, p),
           "a model read from disk starts without a cached merge" if ok else
           "read_model does not initialise merged_model to None")


def orderdet(ctx):
    """No value produced by iterating a hash container reaches an ordered output (file rows whose
    order matters, id assignment) without an intervening sort."""
    crate = ctx.facts("A").lib
    E = Effects(crate)
    p = "vibrato::trainer::model::Model::write_dictionary"
    fa = E.fa(p)
    S = Sym(E, fa)
    # loops over hash maps: next() on hashbrown/std hash iterators
    n = 0
    for b, t in fa.calls():
        ps = [strip_generics(x) for x in callee_paths(t)]
        if not any(x.endswith("::next") for x in ps):
            continue
        rp = (callee_of(t).get("resolved") or callee_of(t))["path"]
        if "hash" not in rp.lower():
            continue
        n += 1
        # loop body: does it write, or append to something?
        sw = fa.term(b).get("t")
        st = fa.term(sw) if sw is not None else None
        body = set()
        if st is not None and st["k"] == "switch":
            some_t = [tg for v, tg in zip(st["vals"], st["targets"]) if v == 1]
            if some_t:
                body = fa.reachable(some_t[0], avoid={b})
        sinks = [cname(fa.term(x)) for x in body if fa.term(x)["k"] == "call"
                 and cname(fa.term(x)) in ("write_fmt", "write_all", "quote_csv_cell", "push",
                                           "push_str", "insert", "extend")]
        ctx.ob("ORDERDET", "write_dictionary|hash-iteration|%s" % strip_generics(rp), not sinks,
               fa.loc(b),
               "iteration over a hash container only feeds an order-insensitive reduction" if not sinks
               else "write_dictionary writes/appends (%s) while iterating a hash container: the "
               "order of the emitted rows depends on the hash seed" % sorted(set(sinks)))
    # the matrix rows: pairs collected from the hash map are sorted before they are written
    sorts = [(b, t) for b, t in fa.calls() if cname(t).startswith("sort")]
    colls = [(b, t) for b, t in fa.calls() if cname(t) == "collect"]
    hash_colls = []
    for b, t in colls:
        names, src = chain_of(fa, {"c": {"l": t["dest"]["l"], "p": []}})
        if any(x in ("iter", "values", "keys", "into_iter") for x in names):
            sap = E.ap_operand(fa, src)
            ty = ""
            pl = op_place(src)
            if pl is not None:
                ty = fa.fn.locals[pl["l"]]["ty"]
            if "HashMap" in ty or "HashSet" in ty:
                hash_colls.append((b, t))
    ok = True
    for cb, ct in hash_colls:
        l = ct["dest"]["l"]
        srt = [sb for sb, st in sorts if (base_local(fa, st["args"][0]) or (None,))[0] == l
               or same_root(fa, st["args"][0], l)]
        good = bool(srt) and all(fa.dominates(cb, sb) for sb in srt)
        # every later use (iteration) is dominated by the sort
        ctx.ob("ORDERDET", "write_dictionary|collected-hash-entries-sorted", good, fa.loc(cb),
               "entries collected from a hash map are sorted before they are written (matrix.def "
               "rows are deterministic)" if good else
               "entries collected from a hash map are written without sorting: matrix.def differs "
               "from run to run")
        ok = ok and good
    ctx.floor("ORDERDET", "hash-map collections in write_dictionary", len(hash_colls), 1)


def same_root(fa, op, local):
    pl = op_place(op)
    for _ in range(10):
        if pl is None:
            return False
        if pl["l"] == local:
            return True
        d = fa.single_def(pl["l"])
        if d is None:
            return False
        if d[2] == "call":
            if not d[3]["args"]:
                return False
            pl = op_place(d[3]["args"][0])
        else:
            rv = d[3]
            pl = op_place(rv["op"]) if rv["k"] == "use" else rv["place"] if rv["k"] == "ref" else None
    return False


def parallel(ctx):
    """Lexicon::from_entries builds map, params and features from the same slice with
    order-preserving adaptors; word id = enumeration index; homographs are appended."""
    crate = ctx.facts("A").lib
    E = Effects(crate)
    p = "vibrato::dictionary::lexicon::Lexicon::from_entries"
    fa = E.fa(p)
    S = Sym(E, fa)
    allowed = {"iter", "map", "into_iter", "deref"}
    for callee, owner in (("new", "WordMap"), ("new", "WordParams"), ("new", "WordFeatures")):
        found = False
        for b, t in fa.calls():
            c = callee_of(t)
            if c is None or cname(t) != "new" or owner not in c["path"]:
                continue
            found = True
            names, src = chain_of(fa, t["args"][0])
            sap = E.ap_operand(fa, src)
            ok = sap == AP(("arg", 1)) and set(names) <= allowed and "map" in names
            ctx.ob("PARALLEL", "from_entries|%s|same-slice-in-order" % owner, ok, fa.loc(b),
                   "%s is built from the entries slice in row order (adaptors %s)" % (owner, names)
                   if ok else "%s is built from %s through %s: rows of map/params/features no "
                   "longer line up" % (owner, sap, names))
        if not found:
            raise EngineError("PARALLEL: constructor of %s not found in from_entries" % owner)
    # WordMap::new: id = enumeration index
    p = "vibrato::dictionary::lexicon::map::WordMap::new"
    fa = E.fa(p)
    S = Sym(E, fa)
    ar = record_insert(fa)
    ok = len(ar) == 1
    if ok:
        b, _word_op, id_op = ar[0]
        e = strip_casts(S.operand(id_op))
        names, src = chain_of(fa, id_op)
        ok = "enumerate" in show(S.operand(id_op)) or e[0] == "ap" and "<idx>" in e[1].proj or \
            (e[0] == "proj" and "#0" in e[2]) or "<idx>" in repr(E.ap_operand(fa, id_op))
        bl = base_local(fa, id_op)
        # follow to the enumerate item
        ok = ok or enum_index(E, fa, id_op)
    ctx.ob("PARALLEL", "WordMap::new|id-is-row-index", ok, fn_loc(crate, p),
           "word id = enumeration index of the row" if ok else
           "the id registered for a surface is not the row's enumeration index")
    p = "vibrato::dictionary::lexicon::map::WordMapBuilder::add_record"
    fa = E.fa(p)
    names = [cname(t) for b, t in fa.calls()]
    ok = names.count("push") == 1 and "entry" in names and \
        any(n in names for n in ("or_default", "or_insert_with", "or_insert"))
    bad = [n for n in names if n in ("insert", "clear", "truncate", "pop")]
    ins = [(b, t) for b, t in fa.calls() if cname(t) == "insert"]
    if not ok and names.count("push") == 1 and ("get_mut" in names) and len(ins) == 1 and \
            _insert_only_when_absent(E, fa, ins[0][0], ins[0][1]):
        ok = True            # append to the list that is there, insert a new list only when there is none
        bad = [n for n in bad if n != "insert"]
    ctx.ob("PARALLEL", "add_record|homographs-appended", ok and not bad, fn_loc(crate, p),
           "rows sharing a surface are appended to that surface's id list" if ok and not bad else
           "add_record does not append to the existing id list (%s): homographs are lost" % names)


def enum_index(E, fa, op):
    """Does the operand derive (through try_from/? and moves) from field 0 of an enumerate item?"""
    pl = op_place(op)
    for _ in range(20):
        if pl is None:
            return False
        fields = [e for e in pl["p"] if e != "*" and "f" in e]
        if fields and fields[-1].get("o") == "(tuple)" and fields[-1]["f"] == 0:
            # the tuple comes from an Enumerate::next
            d = fa.single_def(pl["l"])
            seen = 0
            cur = pl["l"]
            while seen < 10:
                seen += 1
                d = fa.single_def(cur)
                if d is None:
                    return False
                if d[2] == "call":
                    rp = (callee_of(d[3]).get("resolved") or callee_of(d[3]))["path"]
                    return "Enumerate" in rp
                rv = d[3]
                p0 = op_place(rv["op"]) if rv["k"] == "use" else None
                if p0 is None:
                    return False
                cur = p0["l"]
            return False
        d = fa.single_def(pl["l"])
        if d is None:
            return False
        if d[2] == "call":
            if not d[3]["args"]:
                return False
            pl = op_place(d[3]["args"][0])
        else:
            rv = d[3]
            pl = op_place(rv["op"]) if rv["k"] in ("use", "cast") else rv["place"] if rv["k"] == "ref" else None
    return False


# rucrf's tables and the base of the ids that index them (confirmed by reading rucrf 0.3.3):
#   unigram_weight_indices[fid - 1]   forward_backward.rs:75,176  `unigram_weight_indices[fid]` with
#                                     fid = feature id - 1 (feature ids are NonZeroU32, 1-based)
#   bigram_weight_indices[left_fid]   feature.rs:33-60: index 0 is the BOS/EOS feature, so a
#                                     NonZeroU32 left feature id indexes the table as it is
IDX_BASE = {"unigram_weight_indices": 1, "bigram_weight_indices": 0}


def idxbase(ctx):
    """IDXBASE (C14): a 1-based feature id (NonZeroU32::get) used to index one of rucrf's weight
    tables is shifted by exactly the table's base. The unigram table is 0-based by `id - 1`; the
    bigram table keeps slot 0 for BOS/EOS and is indexed by the id itself. An id used with the
    other table's convention still compiles, stays in range, and prunes the wrong features."""
    from sym import Sym, show, strip_casts
    crate = ctx.facts("A").lib
    E = Effects(crate)
    n = 0
    for p, f in sorted(crate.fns.items()):
        if not f.body or f.krate != "vibrato":
            continue
        fa = E.fa(p)
        S = None
        for b, t in fa.calls():
            ps = [strip_generics(x) for x in callee_paths(t)]
            if not any(x.endswith("::get") or x.endswith("::index") or x.endswith("get_unchecked")
                       for x in ps) or len(t["args"]) != 2:
                continue
            S = S or Sym(E, fa)
            recv = S.operand(t["args"][0])
            table = None
            if recv[0] == "ap" and recv[1].root == ("arg", 1) and recv[1].proj and \
                    str(recv[1].proj[0]).startswith("#") and f.j.get("closure_of"):
                # a table bound to a variable and used inside a closure (`retain(|_, id| table.get(..))`)
                par = f.j["closure_of"]
                if par in crate.fns and crate.fns[par].body:
                    pfa = E.fa(par)
                    PS = Sym(E, pfa)
                    kcap = int(str(recv[1].proj[0])[1:])
                    for pb, pi, ps0 in pfa.stmts():
                        prv = ps0.get("rv") or {}
                        if prv.get("k") == "agg" and prv.get("agg") == "closure" and prv.get("closure") == p \
                                and kcap < len(prv["ops"]):
                            recv = strip_casts(PS.operand(prv["ops"][kcap]))
            if recv[0] == "call":
                for k in IDX_BASE:
                    if recv[1].endswith("::" + k):
                        table = k
            if table is None:
                continue
            idx = strip_casts(S.operand(t["args"][1]))
            # peel from_u32 / from / as usize
            for _ in range(4):
                if idx[0] == "call" and idx[1].rsplit("::", 1)[-1] in ("from_u32", "from", "try_from", "unwrap") \
                        and idx[2]:
                    idx = strip_casts(idx[2][0])
            shift = None
            core = idx
            if idx[0] == "binop" and idx[1] in ("Sub", "SubWithOverflow") and idx[3][0] == "const":
                shift = idx[3][1]
                core = strip_casts(idx[2])
            elif idx[0] == "binop" and idx[1] in ("Add", "AddWithOverflow") and idx[3][0] == "const":
                shift = -idx[3][1]
                core = strip_casts(idx[2])
            else:
                shift = 0
            is_id = core[0] == "call" and core[1].endswith("::get") and "NonZero" in core[1] or \
                (core[0] == "call" and core[1].rsplit("::", 1)[-1] == "get" and not core[2][1:])
            if not is_id:
                continue        # not indexed by a feature id (loop counter etc.)
            n += 1
            want = IDX_BASE[table]
            ok = shift == want
            ctx.ob("IDXBASE", "%s|%s|%d" % (p, table, sum(
                1 for o in ctx.obs if o.key.startswith("IDXBASE|%s|%s|" % (p, table)))), ok, fa.loc(b),
                "%s()[id - %d] in %s: the table's base" % (table, want, p.split("::")[-1]) if ok else
                "%s() is indexed with `id - %s` in %s but the table expects `id - %d` (%s): the "
                "entry of a neighbouring feature is consulted, so the wrong features are kept or "
                "pruned and user-lexicon rows get ids without trained weights"
                % (table, shift, p.split("::")[-1], want,
                   "feature ids are 1-based, the table 0-based" if want else
                   "slot 0 is the BOS/EOS feature"))
    ctx.floor("IDXBASE", "feature-id indexed accesses to rucrf weight tables", n, 2)


def template_cover(ctx):
    """TEMPLATE (C18, C20): FeatureExtractor::extract_feature_ids rebuilds a template as
    literal text + substituted placeholders. Every literal segment must be copied: the text
    between the cursor and the next capture inside the capture loop (on every iteration, with
    the cursor moved to the capture's end), and the text after the last capture before the
    expanded string is used as the map key. Dropping one segment merges templates that differ
    only there and breaks the match with model.def lines."""
    crate = ctx.facts("A").lib
    E = Effects(crate)
    ps = [q for q in crate.fns if strip_generics(q).endswith("FeatureExtractor::extract_feature_ids")]
    if len(ps) != 1:
        raise EngineError("TEMPLATE: anchor lost: FeatureExtractor::extract_feature_ids (%d found)" % len(ps))
    p = ps[0]
    fa = E.fa(p)
    S = Sym(E, fa)
    f = crate.fns[p]
    loc = "%s:%s" % (f.file, f.line)
    # slices of the raw template
    slices = {}      # block of the index call -> ("range"|"from", symbolic range)
    for b, t in fa.calls():
        nm = {strip_generics(x).rsplit("::", 1)[-1] for x in callee_paths(t)}
        if "index" in nm and len(t["args"]) == 2:
            r = S.operand(t["args"][0])
            if r[0] == "ap" and r[1].proj[-1:] == ("raw_template",):
                i = S.operand(t["args"][1])
                if i[0] == "agg" and i[1].endswith("RangeFrom"):
                    slices[b] = ("from", i)
                elif i[0] == "agg" and i[1].endswith("ops::Range") or (i[0] == "agg" and i[1].endswith("Range::Range")):
                    slices[b] = ("range", i)
    # push_str calls fed by those slices
    pushes = {}
    for b, t in fa.calls():
        nm = {strip_generics(x).rsplit("::", 1)[-1] for x in callee_paths(t)}
        if "push_str" in nm and len(t["args"]) == 2:
            o = fa.origin(t["args"][1])
            if o[0] == "call" and o[1] in slices:
                pushes[b] = slices[o[1]]
    # the capture loop and the key use
    loops = [(b, t) for b, t in fa.calls()
             if any(strip_generics(x).endswith("::next") for x in callee_paths(t))
             and show(S.operand(t["args"][0])).endswith(".captures")]
    zipped = False
    if not loops:
        # the captures iterated together with something else (`starts.zip(&template.captures)`)
        def over_captures(op):
            work, n_ = [op], 0
            while work and n_ < 60:
                n_ += 1
                x = work.pop()
                ap = E.ap_operand(fa, x)
                if ap is not None and "captures" in [str(e) for e in ap.proj]:
                    return True
                o = fa.origin(x)
                if o[0] == "call":
                    work.extend(o[2]["args"])
            return False
        loops = [(b, t) for b, t in fa.calls()
                 if any(strip_generics(x).endswith("::next") for x in callee_paths(t))
                 and over_captures(t["args"][0])]
        zipped = True
    uses = [b for b, t in fa.calls()
            if {strip_generics(x).rsplit("::", 1)[-1] for x in callee_paths(t)} & {"entry", "insert", "get"}
            and len(t["args"]) >= 2 and "HashMap" in " ".join(callee_paths(t))]
    if len(loops) != 1 or not uses:
        raise EngineError("TEMPLATE: capture loop / key use not recognised in extract_feature_ids")
    H = loops[0][0]
    sw = fa.term(H).get("t")
    st = fa.term(sw)
    some_t = [tg for v, tg in zip(st["vals"], st["targets"]) if v == 1][0]
    none_t = ([tg for v, tg in zip(st["vals"], st["targets"]) if v == 0] or [st["otherwise"]])[0]
    body = fa.reachable(some_t, avoid={H})
    inloop = [b for b in pushes if b in body and pushes[b][0] == "range"]
    ok1 = bool(inloop) and any(H not in fa.reachable(some_t, avoid={b}) for b in inloop)
    ctx.ob("TEMPLATE", "literal-before-each-capture", ok1, loc,
           "every iteration of the capture loop appends raw_template[cursor..capture.start]"
           if ok1 else
           "the capture loop does not append the literal text in front of a placeholder on every "
           "iteration")
    # the cursor: the start of the in-loop range is a variable assigned `capture.end` in the body
    ok2 = False
    if inloop:
        rng = pushes[inloop[0]][1]
        st_e = rng[2].get("start")
        en_e = rng[2].get("end")
        ok_end = en_e is not None and show(en_e).endswith(".start")
        # find assignments `<local> = <capture>.end` in the body, on every iteration
        cur_blocks = []
        for b in body:
            for s in fa.blocks[b]["stmts"]:
                if "rv" in s and s["rv"]["k"] == "use" and not s["lhs"]["p"]:
                    e = S.operand(s["rv"]["op"])
                    if e[0] == "ap" and e[1].proj[-1:] == ("end",) and "captures" in repr(e[1]):
                        if len(fa.defs().get(s["lhs"]["l"], [])) >= 2:
                            cur_blocks.append(b)
        ok2 = ok_end and bool(cur_blocks) and any(H not in fa.reachable(some_t, avoid={b}) for b in cur_blocks)
    undecided = zipped and not ok2
    if not undecided:
        ctx.ob("TEMPLATE", "cursor-moves-to-capture-end", ok2, loc,
               "the literal segment ends at capture.start and the cursor is set to capture.end on "
               "every iteration" if ok2 else
               "the cursor is not moved to the end of the placeholder on every iteration (or the "
               "literal does not stop at its start): placeholder text is copied or literals are lost")
    tail = [b for b in pushes if pushes[b][0] == "from" and b not in body]
    ok3 = bool(tail) and all(any(fa.dominates(b, u) for b in tail) for u in uses) and \
        any(b in fa.reachable(none_t) for b in tail)
    ctx.ob("TEMPLATE", "literal-after-last-capture", ok3, loc,
           "raw_template[cursor..] is appended after the loop, before the expanded string is "
           "used as the key" if ok3 else
           "the text after the last placeholder is not appended before the expanded string is "
           "looked up: templates that differ only in their suffix share a feature id, and "
           "model.def lines with that suffix no longer match")
    if undecided:
        raise EngineError("TEMPLATE: the start of each literal segment is not a cursor variable set to "
                          "capture.end (the captures are iterated together with another sequence): that "
                          "clause is not decided")


def sortcmp(ctx):
    """SORTCMP (C13): the statistics are listed by non-increasing frequency with ties by ascending
    id. Both comparators handed to sort in ConnIdCounter::compute_probs must compare the
    *second* element's probability with the *first* one's (descending) and break ties by
    comparing the first element's id with the second one's (ascending)."""
    crate = ctx.facts("A").lib
    E = Effects(crate)
    p = "vibrato::dictionary::mapper::ConnIdCounter::compute_probs"
    fa = E.fa(p)
    sorts = [(b, t) for b, t in fa.calls()
             if {strip_generics(x).rsplit("::", 1)[-1] for x in callee_paths(t)} &
             {"sort_by", "sort_unstable_by", "sort_by_key", "sort_unstable_by_key", "sort", "sort_unstable",
              "sort_by_cached_key"}]
    ctx.floor("SORTCMP", "sort calls in compute_probs", len(sorts), 2)
    k = 0
    for b, t in sorts:
        nm = sorted({strip_generics(x).rsplit("::", 1)[-1] for x in callee_paths(t)})[0]
        cl = E.closure_of_operand(fa, t["args"][1]) if len(t["args"]) > 1 else None
        first, second = "arg2", "arg3"          # a closure's own value is its argument 1
        if cl is None and len(t["args"]) > 1:
            # the comparator is a named function of the crate
            k0 = op_const(t["args"][1]) or (fa.origin(t["args"][1])[1] if fa.origin(t["args"][1])[0] == "const" else None)
            fp = ((k0 or {}).get("fn") or {}).get("path")
            if fp in crate.fns and crate.fns[fp].body:
                cl = (fp,)
                first, second = "arg1", "arg2"
        if nm not in ("sort_by", "sort_unstable_by") or cl is None:
            ctx.ob("SORTCMP", "%s|sort|%d" % (p, k), False, fa.loc(b),
                   "%s without an explicit two-key comparator: the (frequency desc, id asc) order "
                   "is not established" % nm)
            k += 1
            continue
        cp = cl[0]
        cfa = E.fa(cp)
        S = Sym(E, cfa)

        def side(op, fa_=cfa, S_=S):
            """('a'|'b', field) when the operand is field #n of the first / second element"""
            e = S_.operand(op)
            txt = show(e)
            for who, arg in (("a", first), ("b", second)):
                if txt.startswith(arg + "."):
                    return who, txt[len(arg) + 1:]
            return None, txt
        prim = None
        tie = None
        for cb, ct in cfa.calls():
            cn = {strip_generics(x).rsplit("::", 1)[-1] for x in callee_paths(ct)}
            if cn & {"partial_cmp", "total_cmp", "cmp"} and prim is None and len(ct["args"]) == 2:
                prim = (side(ct["args"][0]), side(ct["args"][1]), cfa.loc(cb))
            if cn & {"then_with", "then"} and len(ct["args"]) == 2:
                inner = E.closure_of_operand(cfa, ct["args"][1])
                if inner is not None:
                    # captures of the tie-break closure, in order
                    caps = []
                    for b2, i2, s2 in cfa.stmts():
                        rv = s2.get("rv")
                        if rv and rv["k"] == "agg" and rv.get("agg") == "closure" and rv.get("closure") == inner[0]:
                            caps = [side(o) for o in rv["ops"]]
                    ifa = E.fa(inner[0])
                    for ib, it in ifa.calls():
                        if {strip_generics(x).rsplit("::", 1)[-1] for x in callee_paths(it)} & {"cmp", "partial_cmp"}:
                            Si = Sym(E, ifa)
                            x, y = show(Si.operand(it["args"][0])), show(Si.operand(it["args"][1]))
                            # arg1.#0 / arg1.#1 are the captures
                            def cap_of(txt):
                                for n_ in range(len(caps)):
                                    if txt.startswith("arg1.#%d" % n_):
                                        return caps[n_]
                                return (None, txt)
                            tie = (cap_of(x), cap_of(y), ifa.loc(ib))
                else:
                    o = cfa.origin(ct["args"][1])
                    if o[0] == "call" and len(o[2]["args"]) == 2:
                        tie = (side(o[2]["args"][0]), side(o[2]["args"][1]), cfa.loc(cb))
        if tie is None and prim is not None:
            # the tie-break written as a match on the primary comparison:
            # `match p2.partial_cmp(p1) { Some(Less) => Less, Some(Greater) => Greater, _ => i1.cmp(i2) }`
            for sb_ in sorted(cfa.live_blocks()):
                st_ = cfa.term(sb_)
                if st_["k"] != "switch" or st_.get("ty") != "i8":
                    continue
                o_ = cfa.origin(st_["op"])
                if o_[0] != "rv" or o_[1]["k"] != "discr":
                    continue
                arms = dict(zip(st_["vals"], st_["targets"]))
                if set(arms) != {255, 0, 1}:
                    continue

                def ret_variant(blk):
                    for s_ in cfa.blocks[blk]["stmts"]:
                        if "lhs" in s_ and s_["lhs"]["l"] == 0 and s_["rv"]["k"] == "agg" and \
                                str(s_["rv"].get("adt", "")).endswith("cmp::Ordering"):
                            return s_["rv"].get("variant")
                    return None
                same_sign = ret_variant(arms[255]) == "Less" and ret_variant(arms[1]) == "Greater"
                et = cfa.term(arms[0])
                if same_sign and et["k"] == "call" and \
                        {strip_generics(x).rsplit("::", 1)[-1] for x in callee_paths(et)} & {"cmp"} and \
                        et["dest"]["l"] == 0 and len(et["args"]) == 2:
                    tie = (side(et["args"][0]), side(et["args"][1]), cfa.loc(arms[0]))
        if tie is None and prim is not None:
            # `match a.partial_cmp(b) { Some(ord) if ord != Equal => ord, _ => i1.cmp(i2) }`:
            # the primary result is returned only on the edge where it was found different from
            # Equal; every other path returns the second comparison
            from flow import bool_switch_targets as _bst
            ties = [(cb, ct) for cb, ct in cfa.calls()
                    if {strip_generics(x).rsplit("::", 1)[-1] for x in callee_paths(ct)} & {"cmp"}
                    and ct["dest"]["l"] == 0 and not ct["dest"]["p"] and len(ct["args"]) == 2]
            prim_calls = [(cb, ct) for cb, ct in cfa.calls()
                          if {strip_generics(x).rsplit("::", 1)[-1] for x in callee_paths(ct)} & {"partial_cmp", "total_cmp", "cmp"}
                          and not (ct["dest"]["l"] == 0 and not ct["dest"]["p"])]
            if len(ties) == 1 and len(prim_calls) == 1:
                pdest = prim_calls[0][1]["dest"]["l"]

                def is_payload(op):
                    pl_ = op_place(op)
                    for _ in range(6):
                        if pl_ is None:
                            return False
                        if pl_["l"] == pdest:
                            return True
                        d_ = cfa.single_def(pl_["l"])
                        if d_ is None or d_[2] != "assign":
                            return False
                        pl_ = op_place(d_[3]["op"]) if d_[3]["k"] == "use" else d_[3].get("place") if d_[3]["k"] == "ref" else None
                    return False
                rets = [(b2, s2) for b2, i2, s2 in cfa.stmts()
                        if "lhs" in s2 and s2["lhs"]["l"] == 0 and not s2["lhs"]["p"]]
                guarded = bool(rets)
                for b2, s2 in rets:
                    if not (s2["rv"]["k"] == "use" and is_payload(s2["rv"]["op"])):
                        guarded = False
                        continue
                    okg = False
                    for db in cfa.dominators().get(b2, ()):
                        dt = cfa.term(db)
                        if dt["k"] != "switch":
                            continue
                        o_ = cfa.origin(dt["op"])
                        if o_[0] != "call" or len(o_[2]["args"]) != 2:
                            continue
                        on_ = {strip_generics(x).rsplit("::", 1)[-1] for x in callee_paths(o_[2])}
                        if not (on_ & {"ne", "eq"}):
                            continue
                        a_, b_ = o_[2]["args"]
                        ks = [cfa.origin(x) for x in (a_, b_)]
                        eqc = [x for x in ks if x[0] == "const" and x[1].get("int") == 0]
                        if not eqc or not (is_payload(a_) or is_payload(b_)):
                            continue
                        f_t, t_t = _bst(dt)
                        diff_edge = t_t if "ne" in on_ else f_t
                        other = f_t if "ne" in on_ else t_t
                        if b2 in cfa.reachable(diff_edge, avoid={other}) and b2 not in cfa.reachable(other, avoid={diff_edge}):
                            okg = True
                    guarded = guarded and okg
                if guarded:
                    tb_, tt_ = ties[0]
                    tie = (side(tt_["args"][0]), side(tt_["args"][1]), cfa.loc(tb_))
        okp = prim is not None and prim[0][0] == "b" and prim[1][0] == "a" and prim[0][1] == prim[1][1]
        ctx.ob("SORTCMP", "%s|sort|%d|frequency-descending" % (p, k), okp, fa.loc(b),
               "primary key: second.%s compared with first.%s (non-increasing frequency)"
               % (prim[0][1], prim[1][1]) if okp else
               "the primary comparison of the sort is %s: the list is not in non-increasing "
               "frequency order" % (prim[:2],))
        okt = tie is not None and tie[0][0] == "a" and tie[1][0] == "b" and tie[0][1] == tie[1][1] \
            and prim is not None and tie[0][1] != prim[0][1]
        ctx.ob("SORTCMP", "%s|sort|%d|ties-by-ascending-id" % (p, k), okt, fa.loc(b),
               "tie-break: first.%s compared with second.%s (ascending id)" % (tie[0][1], tie[1][1])
               if okt else
               "equal frequencies are not broken by ascending id (%s): the order of tied ids "
               "depends on the unstable sort" % (tie[:2] if tie else "no tie-break",))
        k += 1


def optkeep_tokenizer(ctx):
    optkeep(ctx, lambda p: "tokenizer::Tokenizer::" in p)


def optkeep_dictionary(ctx):
    optkeep(ctx, lambda p: "dictionary::Dictionary::" in p)


def optkeep(ctx, only=None):
    """OPTKEEP: a by-value, builder-style method (`fn(mut self, ..) -> Self | Result<Self>`) returns
    the value it was given, with fields assigned in place. If it builds a new value instead, every
    field it does not set explicitly must be taken from `self` - not from a fresh `Self::new(..)` /
    `Default`, which silently resets the options configured by earlier calls (the result then
    depends on the order in which the options were applied)."""
    crate = ctx.facts("A").lib
    E = Effects(crate)
    n = 0
    for p, f in sorted(crate.fns.items()):
        if not f.body or f.krate != "vibrato" or f.j.get("kind") == "Closure":
            continue
        adt = f.j.get("impl_self_adt")
        if not adt or f.j.get("impl_trait"):
            continue
        fa = E.fa(p)
        if fa.arg_count < 1:
            continue
        t1 = fa.fn.locals[1]["ty"]
        if strip_generics(t1) != strip_generics(adt) and not t1.startswith(adt):
            continue
        out = f.j.get("output", "")
        if not (strip_generics(out) == strip_generics(adt) or out.startswith(adt) or
                ("Result<" in out and adt in out.split(",")[0])):
            continue
        if only and not only(p):
            continue
        n += 1
        # every value of the ADT that reaches the return place
        bad = []
        kept = 0
        for b, i, s in fa.stmts():
            rv = s.get("rv")
            if rv and rv["k"] == "agg" and rv.get("agg") == "adt" and strip_generics(rv["adt"]) == strip_generics(adt):
                for fname, o in zip(rv.get("fields", []), rv["ops"]):
                    oo = fa.origin(o)
                    src = None
                    if oo[0] == "place":
                        ap = oo[1]
                        if ap.root[0] == "call":
                            ct = fa.term(ap.root[1])
                            cps = " ".join(callee_paths(ct))
                            rty = fa.fn.locals[ct["dest"]["l"]]["ty"]
                            if rty.startswith(adt) or strip_generics(rty) == strip_generics(adt):
                                src = "a fresh %s" % sorted({strip_generics(x).rsplit("::", 1)[-1] for x in callee_paths(ct)})[0]
                    if src:
                        bad.append("field `%s` from %s() (%s)" % (fname, src, fa.loc(b, i)))
                    else:
                        kept += 1
        ctx.ob("OPTKEEP", "%s|keeps-other-fields" % p, not bad, "%s:%s" % (f.file, f.line),
               "%s returns its receiver (or rebuilds it field by field from self)" % p.split("::")[-1]
               if not bad else
               "%s rebuilds the value and takes %s: what earlier builder calls had configured is "
               "reset, so the result depends on the order of the option calls"
               % (p.split("::")[-1], "; ".join(bad)))
        # OPTSET: a field the setter assigns in place on one path is assigned on every
        # successful path - otherwise the result keeps what an earlier call had configured
        # (`max_grouping_len(3).max_grouping_len(0)` must lift the limit again)
        from flow import result_exits, must_pass
        stores = {}
        for b, i, s0 in fa.stmts():
            if "lhs" not in s0 or s0["lhs"]["l"] != 1 or not s0["lhs"]["p"]:
                continue
            path = tuple(e.get("n") for e in s0["lhs"]["p"] if e != "*" and isinstance(e, dict) and "f" in e)
            if path and all(path):
                stores.setdefault(path, set()).add(b)
        if "Result<" in out:
            exits, _, _ = result_exits(fa)
        else:
            exits = {b for b in fa.live_blocks() if fa.term(b)["k"] == "return"}
        for path, blocks in sorted(stores.items()):
            okp = bool(exits) and all(must_pass(fa, x, blocks) for x in exits)
            ctx.ob("OPTSET", "%s|%s|assigned-on-every-successful-path" % (p, ".".join(path)), okp,
                   "%s:%s" % (f.file, f.line),
                   "%s assigns `%s` on every successful path" % (p.split("::")[-1], ".".join(path)) if okp else
                   "%s assigns `%s` on some paths only: on the others the value configured by an "
                   "earlier call survives, so the result depends on the history of option calls "
                   "and not just on the arguments of the last one" % (p.split("::")[-1], ".".join(path)))
    ctx.floor("OPTKEEP", "by-value builder methods", n, 2 if only else 6)


# Placeholder grammars, given as probe tables: (function, must match with these groups, must not match).
# The pattern strings are read from the MIR constants handed to Regex::new and evaluated with
# Python's `re` (the constructs used - classes, groups, `?`, `+`, anchors - mean the same in the
# `regex` crate). This evaluates a constant of the program, it does not run vibrato.
REGEX_PROBES = {
    "vibrato::trainer::feature_extractor::FeatureExtractor::new": [
        # (probe, full-match expected, digit group expected)
        ("%F[0]", True, "0"), ("%F[7]", True, "7"), ("%F[12]", True, "12"), ("%F?[3]", True, "3"),
        ("%F?[105]", True, "105"), ("%t", True, None),
        ("%L[0]", True, "0"), ("%L[10]", True, "10"), ("%L?[2]", True, "2"), ("%L?[31]", True, "31"),
        ("%R[0]", True, "0"), ("%R[10]", True, "10"), ("%R?[2]", True, "2"), ("%R?[31]", True, "31"),
        ("%F[20]", True, "20"), ("%F[9]", True, "9"), ("%L[100]", True, "100"), ("%R?[90]", True, "90"),
    ],
    "vibrato::trainer::feature_rewriter::FeatureRewriterBuilder::new": [
        ("$1", True, "1"), ("$12", True, "12"), ("$", False, None), ("a$1", False, None), ("$1x", False, None),
        ("$10", True, "10"), ("$20", True, "20"), ("$105", True, "105"), ("$9", True, "9"),
    ],
    "vibrato::mecab::generate_bigram_info": [
        ("12 abc,def", True, "12"), ("0 BOS/EOS", True, "0"), ("-1.5\tB00:x/y", True, None),
        ("10 abc", True, "10"), ("309 x,y", True, "309"), ("-10.05\tB01:x/y", True, None),
        ("0.25\tU1:a", True, None),
    ],
}


def regex_grammar(ctx, only=None):
    """REGEX: the placeholder / line grammars are regex constants. Every probe of the table must
    be matched in full by exactly the patterns of its function (one of them), with the number
    captured whole (`%L[10]` is index 10, not `%L[1` + `0]`)."""
    import re as _re
    crate = ctx.facts("A").lib
    E = Effects(crate)
    total = 0
    for p, probes in REGEX_PROBES.items():
        if only and not only(p):
            continue
        f = crate.fns.get(p)
        if f is None or not f.body:
            raise EngineError("REGEX: anchor lost: %s" % p)
        fa = E.fa(p)
        pats = []
        for b, t in fa.calls():
            if any(strip_generics(x).endswith("Regex::new") for x in callee_paths(t)):
                o = fa.origin(t["args"][0])
                if o[0] == "const" and "str" in o[1]:
                    pats.append(o[1]["str"])
                else:
                    raise EngineError("REGEX: non-literal pattern at %s" % fa.loc(b))
        if not pats:
            raise EngineError("REGEX: no Regex::new in %s" % p)
        comp = []
        for s in pats:
            try:
                comp.append((s, _re.compile(s)))
            except _re.error as e:
                raise EngineError("REGEX: pattern %r is outside the common subset (%s)" % (s, e))
        for probe, want, digits in probes:
            total += 1
            hits = []
            for s, c in comp:
                m = c.search(probe)
                if m and m.group(0) == probe:
                    hits.append((s, m))
            ok = bool(hits) == want
            if ok and want and digits is not None:
                ok = any(digits in m.groups() for s, m in hits)
            ctx.ob("REGEX", "%s|%s" % (p, probe.replace("\t", "<TAB>")), ok, "%s:%s" % (f.file, f.line),
                   "%r is %s by the patterns of %s" % (probe, "accepted" if want else "rejected", p.split("::")[-2])
                   if ok else
                   "%r should be %s by the patterns %s of %s%s: placeholders or lines of this shape "
                   "are silently left as literal text / misread"
                   % (probe, "matched in full" if want else "rejected", pats, p.split("::")[-2],
                      (" with the number %s captured whole" % digits) if digits else ""))
    ctx.floor("REGEX", "grammar probes", total, 4)


TRIMS = ("trim", "trim_start", "trim_end", "trim_matches", "trim_start_matches", "trim_end_matches",
         "trim_ascii", "trim_ascii_start", "trim_ascii_end", "strip_suffix", "strip_prefix", "replace",
         "to_lowercase", "to_uppercase", "to_ascii_lowercase", "to_ascii_uppercase")


def rawcost(ctx):
    """RAWLINE (C07, C16): a bigram.cost line is `right feature / left feature TAB cost`, and the
    feature texts are compared byte for byte with the cells of bigram.right/left - a feature may
    begin or end with white space (the ideographic space U+3000 is a feature value of IPADIC).
    RawConnectorBuilder::parse_cost therefore splits the line it is given, not an edited copy."""
    from r_rewrite import _chain_to_source
    crate = ctx.facts("A").lib
    E = Effects(crate)
    p = "vibrato::dictionary::connector::raw_connector::RawConnectorBuilder::parse_cost"
    f = crate.fns.get(p)
    if f is None or not f.body:
        raise EngineError("RAWLINE: anchor lost: %s" % p)
    n = 0
    for q in [p] + sorted(x for x in crate.fns if x.startswith(p + "::{closure") and crate.fns[x].body):
        fa = E.fa(q)
        for b, t in fa.calls():
            nm = {strip_generics(x).rsplit("::", 1)[-1] for x in callee_paths(t)}
            if not (nm & {"split", "splitn", "rsplit", "rsplitn", "split_once", "rsplit_once", "split_terminator"}) or not t["args"]:
                continue
            n += 1
            ch = _chain_to_source(fa, t["args"][0])
            edits = [c for c in ch if c in TRIMS]
            ctx.ob("RAWLINE", "%s|split|%d" % (p, n), not edits, fa.loc(b),
                   "the text that is split is the line (or a part of it) as it was read" if not edits else
                   "parse_cost edits the line with %s before it is split: white space at the edge of a "
                   "feature text is lost, the feature no longer equals the cell of bigram.right/left it "
                   "belongs to (or collapses to the empty BOS/EOS feature) and its costs go to the wrong "
                   "pairs or are dropped" % ", ".join(edits))
    ctx.floor("RAWLINE", "splits in parse_cost", n, 2)


def trimconfig(ctx):
    """CONFLINE (C18, C17, C20): feature.def and rewrite.def are read line by line; a line is
    stripped of white space on BOTH sides before it is matched against the section headers, the
    `UNIGRAM ` / `BIGRAM ` prefixes and the rule columns. Only the indentation being removed
    leaves a trailing blank (or the CR of a CRLF file) inside the template or the rewrite, which
    then never equals the text it is compared with."""
    from r_rewrite import _chain_to_source
    crate = ctx.facts("A").lib
    E = Effects(crate)
    n = 0
    for fn in ("parse_feature_config", "parse_rewrite_config"):
        p = "vibrato::trainer::config::TrainerConfig::" + fn
        f = crate.fns.get(p)
        if f is None or not f.body:
            raise EngineError("CONFLINE: anchor lost: %s" % p)
        fa = E.fa(p)
        applied = set()
        for b, t in fa.calls():
            nm = {strip_generics(x).rsplit("::", 1)[-1] for x in callee_paths(t)}
            if nm & {"trim", "trim_start", "trim_end", "trim_ascii", "trim_ascii_start", "trim_ascii_end"} and t["args"]:
                ch = _chain_to_source(fa, t["args"][0])
                if "next" in ch or "lines" in ch or "branch" in ch or "unwrap" in ch:
                    applied |= nm
        both = bool(applied & {"trim", "trim_ascii"}) or \
            (bool(applied & {"trim_start", "trim_ascii_start"}) and bool(applied & {"trim_end", "trim_ascii_end"}))
        n += 1
        ctx.ob("CONFLINE", "%s|line-trimmed-on-both-sides" % p, both, "%s:%s" % (f.file, f.line),
               "%s strips a line on both sides before matching it" % fn if both else
               "%s strips a line with %s only: a trailing blank or CR stays inside the template / rule and "
               "the text never equals what it is compared with" % (fn, sorted(applied) or "nothing"))
    ctx.floor("CONFLINE", "config line readers", n, 2)


def counter_init(ctx):
    """COUNTERINIT (C13): `init_connid_counter` starts the statistics afresh: on every path it
    stores a *new* `ConnIdCounter` into the worker (`self.counter = Some(ConnIdCounter::new(..))`).
    `get_or_insert_with` keeps the counter of an earlier run, so a second `init` no longer zeroes
    the counts and the probabilities mix two corpora."""
    crate = ctx.facts("A").lib
    E = Effects(crate)
    ps = [q for q in crate.fns if strip_generics(q).endswith("worker::Worker::init_connid_counter") and crate.fns[q].body]
    if len(ps) != 1:
        raise EngineError("COUNTERINIT: anchor lost: Worker::init_connid_counter")
    p = ps[0]
    f = crate.fns[p]
    fa = E.fa(p)
    keeps = [fa.loc(b) for b, t in fa.calls()
             if {strip_generics(x).rsplit("::", 1)[-1] for x in callee_paths(t)} &
             {"get_or_insert_with", "get_or_insert", "or_insert_with", "get_or_insert_default", "is_none", "is_some"}]
    stores = []
    for b, i, s0 in fa.stmts():
        lhs = s0.get("lhs") or {}
        if lhs.get("l") == 1 and any(isinstance(e, dict) and e.get("n") == "counter" for e in lhs.get("p", [])):
            o = fa.origin(s0["rv"]["op"]) if s0["rv"]["k"] == "use" else ("rv", s0["rv"])
            rv = o[1] if o[0] == "rv" else {}
            fresh = False
            if rv.get("k") == "agg" and rv.get("variant") == "Some" and rv.get("ops"):
                oo = fa.origin(rv["ops"][0])
                fresh = oo[0] == "call" and any("ConnIdCounter" in x and x.endswith("::new") for x in
                                                [strip_generics(y) for y in callee_paths(oo[2])])
            stores.append((b, fresh))
    # `self.counter.insert(ConnIdCounter::new(..))` / `.replace(..)` store a new counter as well
    for b, t in fa.calls():
        nm = {strip_generics(x).rsplit("::", 1)[-1] for x in callee_paths(t)}
        if nm & {"insert", "replace"} and len(t["args"]) == 2 and any("option::Option" in x for x in callee_paths(t)):
            rap = E.ap_operand(fa, t["args"][0])
            oo = fa.origin(t["args"][1])
            if rap is not None and rap.proj[-1:] == ("counter",) and oo[0] == "call" and \
                    any("ConnIdCounter" in x and x.endswith("::new") for x in [strip_generics(y) for y in callee_paths(oo[2])]):
                stores.append((b, True))
    rets = fa.return_blocks()
    fresh_blocks = {b for b, fr in stores if fr}
    from flow import must_pass
    ok = bool(fresh_blocks) and all(must_pass(fa, r, fresh_blocks) for r in rets) and not keeps
    ctx.ob("COUNTERINIT", "%s|stores-a-new-counter" % p, ok, "%s:%s" % (f.file, f.line),
           "every path through init_connid_counter stores Some(ConnIdCounter::new(..)) into the worker" if ok else
           "init_connid_counter does not store a new counter on every path (%s): counts of an earlier "
           "run survive a second init and the probabilities mix two corpora"
           % ("an existing counter is kept: " + ", ".join(keeps) if keeps else "no `counter = Some(ConnIdCounter::new(..))`"))


def next_id_rule(ctx):
    """NEXTID (C18, C15, C14): a feature string that is not in the table yet receives the running
    counter `*next_id` as its id - not a value derived from the table's size. Training removes
    unused strings from the tables afterwards (their ids stay taken by weights), so `len() + 1`
    is then an id that is still in use, and a new string of a user lexicon shares it."""
    from flow import back_slice
    crate = ctx.facts("A").lib
    E = Effects(crate)
    ps = [q for q in crate.fns if strip_generics(q).endswith("FeatureExtractor::extract_feature_ids") and crate.fns[q].body]
    if not ps:
        raise EngineError("NEXTID: anchor lost: FeatureExtractor::extract_feature_ids")
    n = 0
    for p in ps:
        fa = E.fa(p)
        f = crate.fns[p]
        pn = f.j.get("param_names") or []
        if "next_id" not in pn:
            raise EngineError("NEXTID: extract_feature_ids has no parameter `next_id`")
        nid = pn.index("next_id") + 1
        for b, t in fa.calls():
            nm = {strip_generics(x).rsplit("::", 1)[-1] for x in callee_paths(t)}
            if not (nm & {"or_insert", "insert", "or_insert_with"}) or not any("ash" in x and "ap" in x for x in callee_paths(t)):
                continue
            val = t["args"][-1]
            calls = []
            srcs = back_slice(fa, val, lambda bb, tt: calls.append(tt))
            from_counter = ("arg", nid) in srcs
            from_len = any({strip_generics(x).rsplit("::", 1)[-1] for x in callee_paths(c)} & {"len", "count"} for c in calls)
            n += 1
            ok = from_counter and not from_len
            ctx.ob("NEXTID", "%s|new-id-is-the-counter|%d" % (strip_generics(p), n), ok, fa.loc(b),
                   "the id stored for a new feature string is the running counter `*next_id`" if ok else
                   "the id stored for a new feature string is %s: after training has removed unused strings "
                   "from the table that value is an id still in use, and a new string (a user-lexicon "
                   "feature) shares the id - and the weights - of another feature"
                   % ("derived from the size of the table" if from_len else "not taken from `*next_id`"))
    ctx.floor("NEXTID", "id insertions in extract_feature_ids", n, 1)


def regex_trainer(ctx):
    regex_grammar(ctx, lambda p: "trainer::" in p)


def regex_mecab(ctx):
    regex_grammar(ctx, lambda p: "mecab" in p or "feature_extractor" in p)


def csvsplit(ctx):
    """CSVSPLIT (C18, C17): a feature string is a CSV row (cells may be quoted and contain
    commas). Everything that turns a feature string into a list of features goes through
    utils::parse_csv_row; `str::split(',')` shifts the column numbers that templates and rewrite
    rules refer to."""
    crate = ctx.facts("A").lib
    E = Effects(crate)
    users = []
    bad = []
    for p, f in sorted(crate.fns.items()):
        if not f.body or f.krate != "vibrato" or "trainer" not in p and "unknown" not in p and "mecab" not in p:
            continue
        fa = E.fa(p)
        S = None
        for b, t in fa.calls():
            ps = [strip_generics(x) for x in callee_paths(t)]
            if any(x.endswith("utils::parse_csv_row") for x in ps):
                users.append(p)
            if any(x.rsplit("::", 1)[-1] in ("split", "splitn", "rsplit", "split_terminator") and "str" in x for x in ps) \
                    and len(t["args"]) >= 2:
                o = fa.origin(t["args"][1])
                ch = o[1].get("char", o[1].get("int")) if o[0] == "const" else None
                sv = o[1].get("str") if o[0] == "const" else None
                if ch in (",", 44) or sv == ",":
                    # splitting something that is a feature string? parameters / fields named *feature*
                    S = S or Sym(E, fa)
                    src = show(S.operand(t["args"][0]))
                    names = fa.fn.local_names()
                    pl = op_place(t["args"][0])
                    nm = ""
                    cur = pl
                    for _ in range(6):
                        if cur is None:
                            break
                        if cur["l"] in names:
                            nm = names[cur["l"]]
                            break
                        d = fa.single_def(cur["l"])
                        if d is None or d[2] != "assign":
                            break
                        cur = op_place(d[3]["op"]) if d[3]["k"] == "use" else d[3]["place"] if d[3]["k"] == "ref" else None
                    if "feature" in nm or "feature" in src:
                        bad.append("%s splits `%s` on ',' (%s)" % (p.split("::")[-1], nm or src, fa.loc(b)))
    ctx.floor("CSVSPLIT", "parse_csv_row call sites", len(users), 3)
    ctx.ob("CSVSPLIT", "features-parsed-as-csv", not bad, "vibrato/src/trainer*",
           "feature strings are split with utils::parse_csv_row (%d call sites), never with a bare "
           "split(',')" % len(users) if not bad else
           "a feature string is split on ',' without CSV unquoting: %s; a quoted cell containing a "
           "comma shifts every later column" % "; ".join(bad))


def bigram_details_shape(ctx):
    """BIGRAMROW (C16, C18): two shapes of Model::write_bigram_details that the row templates do not
    show.
      * the `,` between the cells of a bigram.left/right line is written exactly when the cell
        index is non-zero (a separator in front of the first cell only shifts every column);
      * in the bigram.cost loop the position in `bigram_weight_indices()` *is* the left feature
        id (slot 0 = BOS/EOS), so the id looked up in the id->string map is that position, not
        position +- 1."""
    from flow import bool_switch_targets
    from r_cand import _lin
    import fmt as _fmt
    crate = ctx.facts("A").lib
    E = Effects(crate)
    p = "vibrato::trainer::model::Model::write_bigram_details"
    f = crate.fns.get(p)
    if f is None or not f.body:
        raise EngineError("BIGRAMROW: anchor lost: %s" % p)
    fa = E.fa(p)
    S = Sym(E, fa)
    seps = [tc for tc in _fmt.text_calls(E, fa)
            if tc["kind"] in ("write_fmt", "write_all") and [q[1] for q in tc["pieces"] if q[0] == "lit"] == [","]
            and not [q for q in tc["pieces"] if q[0] == "arg"]]
    ctx.floor("BIGRAMROW", "separator writes", len(seps), 2)
    for k, tc in enumerate(seps):
        b = tc["b"]
        guard = None
        for d in sorted(fa.dominators().get(b, ()), reverse=True):
            t = fa.term(d)
            if t["k"] != "switch":
                continue
            e = S.operand(t["op"])
            if e[0] == "binop" and e[1] in ("Ne", "Eq", "Gt", "Lt", "Ge", "Le") and "<idx>" in show(e):
                guard = (d, e, t)
                break
        ok, why = False, "no comparison of the cell index guards the separator"
        if guard is not None:
            d, e, t = guard
            f_t, t_t = bool_switch_targets(t)
            on_true = b in fa.reachable(t_t, avoid={f_t})
            (lt, lc), (rt, rc) = _lin(e[2]), _lin(e[3])
            opn = e[1] if on_true else {"Ne": "Eq", "Eq": "Ne", "Gt": "Le", "Le": "Gt", "Lt": "Ge", "Ge": "Lt"}[e[1]]
            # separator iff idx != 0  (idx > 0, idx >= 1, 0 < idx ...)
            idx_left = "<idx>" in lt
            c = (rc - lc) if idx_left else (lc - rc)      # idx OP c   /  c OP idx
            if idx_left:
                ok = (opn == "Ne" and c == 0) or (opn == "Gt" and c == 0) or (opn == "Ge" and c == 1)
            else:
                ok = (opn == "Ne" and c == 0) or (opn == "Lt" and c == 0) or (opn == "Le" and c == 1)
            why = "separator written when %s %s %s (%s edge)" % (show(e[2])[-30:], e[1], show(e[3]), "true" if on_true else "false")
        ctx.ob("BIGRAMROW", "%s|separator|%d" % (p, k), ok, fa.loc(b),
               "the cell separator is written exactly for cell indices > 0" if ok else
               "the `,` between cells is not written exactly for cell indices > 0 (%s): the line "
               "starts with a separator or cells run together" % why)
    # position in bigram_weight_indices == left feature id
    n = 0
    for b, t in fa.calls():
        nm = {strip_generics(x).rsplit("::", 1)[-1] for x in callee_paths(t)}
        if "get" not in nm or len(t["args"]) != 2:
            continue
        key = S.operand(t["args"][1])
        cur = strip_casts(key)
        for _ in range(4):
            if cur[0] == "call" and cur[1].rsplit("::", 1)[-1] in ("unwrap", "try_from", "from", "from_u32") and cur[2]:
                cur = strip_casts(cur[2][0])
        t_, c_ = _lin(cur)
        if "<idx>" not in t_:
            continue
        # which iterator does the index come from?
        src = ""
        if cur[0] == "ap" or True:
            base = cur
            while base[0] == "binop":
                base = strip_casts(base[2])
            if base[0] == "ap" and base[1].root[0] == "call":
                ct = fa.term(base[1].root[1])
                chain = []
                x = ct
                for _ in range(6):
                    chain.append(sorted({strip_generics(y).rsplit("::", 1)[-1] for y in callee_paths(x)})[0])
                    if not x["args"]:
                        break
                    o = fa.origin(x["args"][0])
                    if o[0] != "call":
                        break
                    x = o[2]
                src = " <- ".join(chain)
        if "bigram_weight_indices" not in src:
            continue
        n += 1
        ok = c_ == 0
        ctx.ob("BIGRAMROW", "%s|position-is-left-feature-id" % p, ok, fa.loc(b),
               "the position in bigram_weight_indices() is used as the left feature id" if ok else
               "the left feature id is looked up as position %+d in bigram_weight_indices(): the "
               "feature text of a neighbouring id is written in front of the costs" % c_)
    if n == 0:
        # the rows may be fetched by key instead of walked: then the keys must be every position of
        # the table. Keys taken from the id->text map leave out the ids that have no text (slot 0,
        # BOS/EOS), and the costs of those rows are not written.
        from r_rewrite import _chain_to_source
        for b, t in fa.calls():
            nm = {strip_generics(x).rsplit("::", 1)[-1] for x in callee_paths(t)}
            if not (nm & {"get", "index"}) or len(t["args"]) != 2:
                continue
            if "bigram_weight_indices" not in show(S.operand(t["args"][0])):
                continue
            key = strip_casts(S.operand(t["args"][1]))
            for _ in range(4):
                if key[0] == "call" and key[1].rsplit("::", 1)[-1] in ("unwrap", "try_from", "from", "from_u32") and key[2]:
                    key = strip_casts(key[2][0])
            if key[0] == "ap" and key[1].root[0] == "call":
                ch = _chain_to_source(fa, fa.term(key[1].root[1])["args"][0]) if fa.term(key[1].root[1])["args"] else []
                # follow the collected vector back through its construction
                seen = " ".join(ch)
                if "keys" in ch and "chain" not in ch:
                    n += 1
                    ctx.ob("BIGRAMROW", "%s|every-row-written" % p, False, fa.loc(b),
                           "the rows of bigram_weight_indices() are fetched by the keys of the id->text "
                           "map (%s): ids without a text - slot 0, BOS/EOS - are never visited and their "
                           "costs are missing from bigram.cost" % " <- ".join(ch))
    ctx.floor("BIGRAMROW", "id lookups by table position", n, 1)


def mecab_ids(ctx):
    """MECABIDS (C20): the error and density clauses of mecab::generate_bigram_info.
      * a line of left-id.def / right-id.def that does not match `<id> <features>` reaches Err only;
      * id 0 whose first feature is not "BOS/EOS" reaches Err only (the test is `!=`);
      * both output loops run over 1..len(ids read) and a missing id reaches Err only (gap);
      * model.def feature text has "BOS/EOS" removed before it is split at '/', so that BOS/EOS
        lines pair with the empty feature id."""
    from flow import result_exits, bool_switch_targets
    crate = ctx.facts("A").lib
    E = Effects(crate)
    p = "vibrato::mecab::generate_bigram_info"
    f = crate.fns.get(p)
    if f is None or not f.body:
        raise EngineError("MECABIDS: anchor lost: %s" % p)
    fa = E.fa(p)
    S = Sym(E, fa)
    loc = "%s:%s" % (f.file, f.line)
    ok_b, err_b, _ = result_exits(fa)

    def err_only(b):
        return not (fa.reachable(b) & ok_b)

    def option_switch(call_block):
        """the switch on the discriminant of the Option a call returned: (some_target, none_target)"""
        t = fa.term(call_block)
        dest = t["dest"]["l"]
        for sb in sorted(fa.live_blocks()):
            st = fa.term(sb)
            if st["k"] != "switch" or not fa.dominates(call_block, sb):
                continue
            o = fa.origin(st["op"])
            if o[0] == "rv" and o[1]["k"] == "discr" and o[1]["place"]["l"] == dest:
                arms = dict(zip(st["vals"], st["targets"]))
                return arms.get(1, st["otherwise"]), arms.get(0, st["otherwise"])
        return None
    # (a) captures() misses
    caps = [b for b, t in fa.calls() if "captures" in {strip_generics(x).rsplit("::", 1)[-1] for x in callee_paths(t)}]
    id_caps = []
    for b in caps:
        sw = option_switch(b)
        if sw is None:
            continue
        id_caps.append((b, sw))
    # the two id readers are the captures whose None arm is expected to fail; the model.def reader
    # skips unmatched lines by design. Tell them apart by the regex constant they use.
    n_err = sum(1 for b, (s, n) in id_caps if err_only(n))
    ctx.ob("MECABIDS", "%s|malformed-id-line-is-error" % p, n_err >= 2, loc,
           "a line of either id file that is not `<id> <features>` leads to Err (%d readers)" % n_err
           if n_err >= 2 else
           "only %d of the two id-file readers return Err for a line that does not match "
           "`<id> <features>`: malformed lines are skipped silently and ids go missing" % n_err)
    # (b) id 0 must be BOS/EOS
    n0 = 0
    for b in sorted(fa.live_blocks()):
        t = fa.term(b)
        if t["k"] != "switch":
            continue
        e = S.operand(t["op"])
        if e[0] == "binop" and e[1] in ("Eq", "Ne") and strip_casts(e[3]) == ("const", 0) and "parse" in show(e[2]):
            f_t, t_t = bool_switch_targets(t)
            zero_t = t_t if e[1] == "Eq" else f_t
            # on the id == 0 edge: is_some_and(closure) whose true edge reaches Err only
            for cb in sorted(fa.reachable(zero_t)):
                ct = fa.term(cb)
                if ct["k"] == "call" and "is_some_and" in {strip_generics(x).rsplit("::", 1)[-1] for x in callee_paths(ct)}:
                    cl = E.closure_of_operand(fa, ct["args"][1])
                    neq = False
                    if cl is not None:
                        cfa = E.fa(cl[0])
                        for xb, xt in cfa.calls():
                            nm = {strip_generics(x).rsplit("::", 1)[-1] for x in callee_paths(xt)}
                            lits = [cfa.origin(a) for a in xt["args"]]
                            has_lit = any(o[0] == "const" and (o[1].get("str") == "BOS/EOS" or
                                                               bytes(o[1].get("bytes") or []) == b"BOS/EOS")
                                          for o in lits)
                            if "ne" in nm and has_lit:
                                neq = True
                    sw = ct.get("t")
                    st = fa.term(sw) if sw is not None else None
                    if st is not None and st["k"] == "switch":
                        ff, tt = bool_switch_targets(st)
                        if neq and err_only(tt) and not err_only(ff):
                            n0 += 1
                    break
    ctx.ob("MECABIDS", "%s|id-0-must-be-BOS/EOS" % p, n0 >= 2, loc,
           "in both id files, id 0 with a first feature other than \"BOS/EOS\" leads to Err" if n0 >= 2 else
           "the test `id == 0 and first feature != \"BOS/EOS\" => Err` holds for %d of the two id "
           "files: a wrong id 0 is accepted (or a correct one rejected)" % n0)
    # (c) output loops 1..len(map), gaps are errors
    loops = 0
    gaps = 0
    for b, i, s in fa.stmts():
        rv = s.get("rv")
        if rv and rv["k"] == "agg" and str(rv.get("adt", "")).endswith("ops::Range") and len(rv["ops"]) == 2:
            lo, hi = S.operand(rv["ops"][0]), S.operand(rv["ops"][1])
            if strip_casts(lo) == ("const", 1) and strip_casts(hi)[0] == "call" and strip_casts(hi)[1].endswith("::len"):
                loops += 1
    for b, t in fa.calls():
        nm = {strip_generics(x).rsplit("::", 1)[-1] for x in callee_paths(t)}
        if "get" in nm and "HashMap" in " ".join(callee_paths(t)) and len(t["args"]) == 2:
            key = show(S.operand(t["args"][1]))
            if "next(" in key or ".[]" in key:
                sw = option_switch(b)
                if sw is not None and err_only(sw[1]) and fa.fn.locals[t["dest"]["l"]]["ty"].count("Vec<") >= 1:
                    gaps += 1
                elif sw is None and fa.fn.locals[t["dest"]["l"]]["ty"].count("Vec<") >= 1:
                    # `map.get(&id).ok_or_else(|| error)?`: None becomes Err, and `?` returns it
                    dl = t["dest"]["l"]
                    for ob_, ot_ in fa.calls():
                        on_ = {strip_generics(x).rsplit("::", 1)[-1] for x in callee_paths(ot_)}
                        if on_ & {"ok_or", "ok_or_else"} and ot_["args"] and \
                                (op_place(ot_["args"][0]) or {}).get("l") == dl and not (op_place(ot_["args"][0]) or {}).get("p"):
                            rl = ot_["dest"]["l"]
                            if any("Try>::branch" in " ".join(callee_paths(bt_)) and bt_["args"] and
                                   (op_place(bt_["args"][0]) or {}).get("l") == rl for bb_, bt_ in fa.calls()):
                                gaps += 1
    ctx.ob("MECABIDS", "%s|dense-ids-from-1" % p, loops == 2, loc,
           "both id lists are written for id in 1..(number of ids read)" if loops == 2 else
           "%d of the two output loops run over 1..len(ids): an id is skipped, id 0 is written, or "
           "the loop asks for an id beyond the last one" % loops)
    ctx.ob("MECABIDS", "%s|gap-is-error" % p, gaps == 2, loc,
           "an id missing from the sequence leads to Err in both loops" if gaps == 2 else
           "a gap in the id sequence is an error in only %d of the two output loops" % gaps)
    # (d) BOS/EOS removed from model.def features before splitting
    okr = False
    for b, t in fa.calls():
        nm = {strip_generics(x).rsplit("::", 1)[-1] for x in callee_paths(t)}
        if "split" in nm and len(t["args"]) >= 2:
            chain = []
            cur = t["args"][0]
            for _ in range(8):
                o = fa.origin(cur)
                if o[0] != "call":
                    break
                cn = sorted({strip_generics(x).rsplit("::", 1)[-1] for x in callee_paths(o[2])})[0]
                chain.append(cn)
                if cn == "replace":
                    lits = [fa.origin(a) for a in o[2]["args"][1:]]
                    okr = okr or (lits and lits[0][0] == "const" and lits[0][1].get("str") == "BOS/EOS"
                                  and len(lits) > 1 and lits[1][0] == "const" and lits[1][1].get("str") == "")
                if not o[2]["args"]:
                    break
                cur = o[2]["args"][0]
    ctx.ob("MECABIDS", "%s|BOS/EOS-becomes-empty-feature" % p, bool(okr), loc,
           "model.def feature text has \"BOS/EOS\" replaced by the empty string before it is split at '/'"
           if okr else
           "the model.def feature text is split at '/' without removing \"BOS/EOS\" first: the "
           "BOS/EOS lines are split into three parts and never pair with the empty feature")


LOSSLESS = ("as_ref", "to_string", "to_owned", "clone", "into", "from", "deref", "borrow", "as_str", "to_str",
            "new", "index")
DROPPING = ("take", "skip", "step_by", "filter", "filter_map", "take_while", "skip_while", "nth", "last",
            "next", "peekable", "dedup", "chunks", "rev", "max", "min", "find", "position", "first")


def _insert_only_when_absent(E, fa, ib, it):
    """`map.insert(k, vec![id])` that can only run when the map was just found not to hold the key:
    the insert sits on the None edge of a `match map.get_mut(..)` / `map.get(..)`, or on the false
    edge of `map.contains_key(..)`, of the same map. It then replaces nothing."""
    m_ap = E.ap_operand(fa, it["args"][0]) if it["args"] else None
    if m_ap is None:
        return False
    for db in fa.dominators().get(ib, ()):
        dt = fa.term(db)
        if dt["k"] != "switch":
            continue
        o = fa.origin(dt["op"])
        look = None
        if o[0] == "rv" and o[1]["k"] == "discr":
            lo = fa.origin({"c": {"l": o[1]["place"]["l"], "p": []}}) if not o[1]["place"]["p"] else ("?",)
            if lo[0] == "call" and {strip_generics(x).rsplit("::", 1)[-1] for x in callee_paths(lo[2])} & {"get_mut", "get"}:
                look = lo[2]
                absent = dict(zip(dt["vals"], dt["targets"])).get(0, dt["otherwise"])
                present = dict(zip(dt["vals"], dt["targets"])).get(1, dt["otherwise"])
        elif o[0] == "call" and {strip_generics(x).rsplit("::", 1)[-1] for x in callee_paths(o[2])} & {"contains_key"}:
            look = o[2]
            from flow import bool_switch_targets as _b
            absent, present = _b(dt)
        if look is None or not look["args"] or E.ap_operand(fa, look["args"][0]) != m_ap:
            continue
        if ib in fa.reachable(absent, avoid={present}) and ib not in fa.reachable(present, avoid={absent}):
            return True
    return False


def homograph_accumulate(ctx):
    """LEXMAP (homographs): `all rows sharing a surface are kept as distinct homographs`."""
    crate = ctx.facts("A").lib
    E = Effects(crate)
    # (1b) homographs accumulate: the surface -> ids map of the builder only ever grows a
    # surface's id list (entry().or_default().push(..)); `insert(surface, ids)` replaces what an
    # earlier row with the same surface had registered
    nacc = 0
    for q, g in sorted(crate.fns.items()):
        if not g.body or g.krate != "vibrato" or "lexicon" not in q:
            continue
        gfa = E.fa(q)
        GS = None
        for gb, gt in gfa.calls():
            nm = sorted({strip_generics(x).rsplit("::", 1)[-1] for x in callee_paths(gt)})[0]
            if nm not in ("insert", "entry") or not gt["args"]:
                continue
            ty = gfa.fn.locals[op_place(gt["args"][0])["l"]]["ty"] if op_place(gt["args"][0]) else ""
            if "Map<std::string::String, std::vec::Vec<u32>" not in ty.replace("alloc::", "std::"):
                continue
            if nm == "entry":
                nacc += 1
                continue
            if _insert_only_when_absent(E, gfa, gb, gt):
                nacc += 1           # `match map.get_mut(k) { Some(ids) => ids.push(id), None => insert }`
                continue
            ctx.ob("LEXMAP", "WordMapBuilder|homographs-accumulate|%s" % q.split("::")[-1], False, gfa.loc(gb),
                   "%s registers the ids of a surface with `insert`, which replaces the ids an earlier "
                   "row with the same surface had registered: homographs on non-adjacent rows are lost"
                   % "::".join(q.split("::")[-2:]))
    ctx.floor("LEXMAP", "accumulating registrations (entry) in the word-map builder", nacc, 1)


def record_insert(fa):
    """The statement of WordMap::new that registers (surface, id): the call
    `builder.add_record(word, id)`, or its body written in place
    (`builder.map.entry(word).or_default().push(id)`). Returns [(block, word operand, id operand)]."""
    out = []
    for b, t in fa.calls():
        nm = {strip_generics(x).rsplit("::", 1)[-1] for x in callee_paths(t)}
        if "add_record" in nm and len(t["args"]) >= 3:
            out.append((b, t["args"][1], t["args"][2]))
        elif "push" in nm and len(t["args"]) == 2:
            cur = t["args"][0]
            for _ in range(6):
                o = fa.origin(cur)
                if o[0] != "call":
                    break
                n2 = {strip_generics(x).rsplit("::", 1)[-1] for x in callee_paths(o[2])}
                if "entry" in n2 and len(o[2]["args"]) == 2:
                    out.append((b, o[2]["args"][1], t["args"][1]))
                    break
                if not (n2 & {"or_default", "or_insert_with", "or_insert", "deref_mut"}) or not o[2]["args"]:
                    break
                cur = o[2]["args"][0]
    return out


def lexmap_shape(ctx):
    """LEXMAP (C11): three places where a lexicon row can be altered or lost without touching the
    parser's columns.
      * WordMap::new stores each surface as it is (to_string of the item, nothing else);
      * WordMap::common_prefix_iterator yields every id of a matched posting list (no adaptor
        that drops elements between `postings.ids(..)` and the returned iterator);
      * parse_csv skips a row only when the unquoted surface itself is empty (`surface.is_empty()`
        on the surface string, not on a trimmed or otherwise derived value)."""
    crate = ctx.facts("A").lib
    E = Effects(crate)
    # (1) WordMap::new
    ps = [q for q in crate.fns if strip_generics(q).endswith("lexicon::map::WordMap::new") and crate.fns[q].body]
    if len(ps) != 1:
        raise EngineError("LEXMAP: anchor lost: WordMap::new")
    fa = E.fa(ps[0])
    adds = record_insert(fa)
    if len(adds) != 1:
        raise EngineError("LEXMAP: WordMap::new does not register (surface, id) exactly once")
    b, word_op, _id_op = adds[0]
    chain = []
    cur = word_op
    for _ in range(10):
        o = fa.origin(cur)
        if o[0] != "call":
            break
        nm = sorted({strip_generics(x).rsplit("::", 1)[-1] for x in callee_paths(o[2])})[0]
        if nm == "next":
            break
        chain.append(nm)
        if not o[2]["args"]:
            break
        cur = o[2]["args"][0]
    bad = [c for c in chain if c not in LOSSLESS]
    ctx.ob("LEXMAP", "WordMap::new|surface-stored-verbatim", not bad, fa.loc(b),
           "the key added to the map is the surface itself (%s)" % " <- ".join(chain) if not bad else
           "the surface is transformed before it becomes the map key (%s): surfaces with leading or "
           "trailing spaces, case or width variants no longer match the text" % ", ".join(bad))
    # (2) common_prefix_iterator: closures of WordMap::common_prefix_iterator
    base = [q for q in crate.fns if strip_generics(q).endswith("lexicon::map::WordMap::common_prefix_iterator")]
    cl = [q for q in crate.fns if any(q.startswith(x + "::{closure") for x in base) and crate.fns[q].body]
    found = False
    for q in cl + base:
        cfa = E.fa(q)
        for cb, ct in cfa.calls():
            if "ids" not in {strip_generics(x).rsplit("::", 1)[-1] for x in callee_paths(ct)}:
                continue
            found = True
            # everything applied to the result of ids() until it leaves the closure
            used = []
            dest = ct["dest"]["l"]
            frontier = {dest}
            for _ in range(8):
                nxt = set()
                for xb, xt in cfa.calls():
                    if xt["args"] and op_place(xt["args"][0]) and op_place(xt["args"][0])["l"] in frontier:
                        used.append(sorted({strip_generics(x).rsplit("::", 1)[-1] for x in callee_paths(xt)})[0])
                        nxt.add(xt["dest"]["l"])
                for xb, xi, xs in cfa.stmts():
                    if "rv" in xs and xs["rv"]["k"] == "use" and op_place(xs["rv"]["op"]) and \
                            op_place(xs["rv"]["op"])["l"] in frontier and not xs["lhs"]["p"]:
                        nxt.add(xs["lhs"]["l"])
                if not nxt - frontier:
                    break
                frontier |= nxt
            drop = [u for u in used if u in DROPPING]
            ctx.ob("LEXMAP", "WordMap::common_prefix_iterator|all-homographs-yielded", not drop, cfa.loc(cb),
                   "every id of a matched posting list is yielded (%s)" % (used or ["as is"]) if not drop else
                   "the ids of a matched posting list pass through %s: homographs after the first are "
                   "never offered as candidates" % drop)
    if not found:
        raise EngineError("LEXMAP: postings.ids(..) not found below WordMap::common_prefix_iterator")
    # (3) parse_csv: the skip test
    p = "vibrato::dictionary::lexicon::Lexicon::parse_csv"
    fa = E.fa(p)
    tests = []
    for b, t in fa.calls():
        if "is_empty" in {strip_generics(x).rsplit("::", 1)[-1] for x in callee_paths(t)} and \
                "String" in " ".join(callee_paths(t)) + fa.fn.locals[op_place(t["args"][0])["l"]]["ty"]:
            tests.append((b, t))
    names = fa.fn.local_names()
    ok = False
    why = "no is_empty() test on a String found"
    for b, t in tests:
        chain = []
        cur = t["args"][0]
        for _ in range(6):
            o = fa.origin(cur)
            if o[0] != "call":
                break
            chain.append(sorted({strip_generics(x).rsplit("::", 1)[-1] for x in callee_paths(o[2])})[0])
            cur = o[2]["args"][0] if o[2]["args"] else None
            if cur is None:
                break
        extra = [c for c in chain if c not in ("deref", "as_str", "as_ref", "borrow")]
        ok = not extra
        why = "is_empty() is applied to %s" % (" <- ".join(chain) or "the surface string")
        if ok:
            break
    stests = [x for x in tests]
    ctx.ob("LEXMAP", "parse_csv|skip-only-empty-surface", ok and len(stests) >= 1, "%s:%s" % (fa.fn.file, fa.fn.line),
           "a row is skipped only when its unquoted surface is the empty string" if ok else
           "the row-skipping test is not `surface.is_empty()` on the surface itself (%s): surfaces "
           "made of spaces are dropped" % why)

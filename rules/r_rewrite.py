"""FIRSTMATCH / REFSUBST / FALLBACK / SECTIONS (C17): the structural clauses of "the first
registered matching rule applies".

The matcher (FeatureRewriter::rewrite) is a depth-first search that tries the actions of a trie
node in the order they were added and returns at the first Rewrite action it reaches. With that
matcher, "earliest rule in rewrite.def order wins" holds iff the depth-first order of the trie
is the registration order of the rules, i.e. iff the rules below any edge form a contiguous run
of rule numbers. The builder keeps that invariant exactly when a new rule may share an existing
edge only if that edge is the most recently added action of its node; sharing an older edge lets
the new rule overtake the rules registered in between (the defect of the pinned tree:
`*,x` `a,y` `*,y` rewrote (a,y) with the third rule).

    FIRSTMATCH-BUILD  add_rule moves its cursor along an existing edge only when that edge was
                      obtained from `.last()` of the node's action list (or never reuses)
    FIRSTMATCH-SCAN   rewrite walks the action list in ascending order (iter/enumerate/skip only)
                      and returns from the Rewrite arm without visiting further actions
    REFSUBST          `$n` is stored as Reference(n-1) and expanded to features.get(idx) or "*"
    FALLBACK          extract_feature_set feeds the rewritten list when rewrite() returns Some
                      and the original list otherwise, to the same extractor in both arms
    SECTIONS          each `[... rewrite]` header selects its own builder, and the three builders
                      are returned in the order (unigram, left, right)
The rules decide these shapes; the matcher's backtracking arithmetic (depth from the stack
length) is not decided.
"""
from effects import Effects
from facts import EngineError
from flow import calls_named, bool_switch_targets
from mir import callee_of, callee_paths, op_place, op_const, strip_generics
from sym import Sym, show

P_ADD = "vibrato::trainer::feature_rewriter::FeatureRewriterBuilder::add_rule"
P_REW = "vibrato::trainer::feature_rewriter::FeatureRewriter::rewrite"
P_CFG = "vibrato::trainer::config::TrainerConfig::parse_rewrite_config"
P_EXT = "vibrato::trainer::Trainer::extract_feature_set"


def _names(t):
    return {strip_generics(x).rsplit("::", 1)[-1] for x in callee_paths(t)}


def _fn(crate, p):
    c = [q for q in crate.fns if strip_generics(q) == p and crate.fns[q].body]
    if len(c) != 1:
        raise EngineError("C17 anchor lost: %s (%d found)" % (p, len(c)))
    return c[0]


def _loc(crate, p):
    f = crate.fns[p]
    return "%s:%s" % (f.file, f.line)


def _chain_to_source(fa, op, limit=14):
    """Names of the calls an operand was produced by, outermost first, following the first
    argument; stops at a place that is not a call result."""
    out = []
    cur = op
    for _ in range(limit):
        o = fa.origin(cur)
        if o[0] == "call":
            out.append(sorted(_names(o[2]))[0])
            if not o[2]["args"]:
                break
            cur = o[2]["args"][0]
            continue
        if o[0] == "place" and o[1].root[0] == "call":
            t = fa.term(o[1].root[1])
            out.append(sorted(_names(t))[0])
            if not t["args"]:
                break
            cur = t["args"][0]
            continue
        break
    return out


def build(ctx, crate, E):
    p = _fn(crate, P_ADD)
    fa = E.fa(p)
    n = 0
    bad = []
    for b, i, s in fa.stmts():
        rv = s.get("rv")
        if not rv or rv["k"] != "use":
            continue
        pl = op_place(rv["op"])
        if pl is None or not pl["p"]:
            continue
        last = pl["p"][-1]
        if not (isinstance(last, dict) and last.get("n") == "target" and str(last.get("o", "")).endswith("::Edge")):
            continue
        # an existing edge's target is read: where does the edge come from?
        n += 1
        chain = _chain_to_source(fa, {"c": {"l": pl["l"], "p": []}})
        src = [c for c in chain if c in ("next", "last", "last_mut", "get", "index", "find", "position",
                                         "rev", "nth", "first")]
        first = src[0] if src else "?"
        if first not in ("last", "last_mut"):
            bad.append((fa.loc(b, i), first, chain[:5]))
    # the same read inside the closure of an Option combinator
    # (`..find(..).filter(..).map(|edge| edge.target)`): the edge is the closure's parameter, its
    # source is the receiver chain of the combinator in add_rule
    SEL = ("next", "last", "last_mut", "get", "index", "find", "position", "rev", "nth", "first", "find_map",
           "rfind", "rposition", "max_by", "min_by", "max_by_key", "min_by_key", "skip", "nth_back")
    for b0, i0, s0 in fa.stmts():
        rv0 = s0.get("rv") or {}
        if rv0.get("k") != "agg" or rv0.get("agg") != "closure" or rv0.get("closure") not in crate.fns:
            continue
        cfa = E.fa(rv0["closure"])
        reads = []
        for cb, ci, cs in cfa.stmts():
            crv = cs.get("rv")
            cpl = op_place(crv["op"]) if crv and crv["k"] == "use" else None
            if cpl is not None and cpl["p"] and isinstance(cpl["p"][-1], dict) and cpl["p"][-1].get("n") == "target" \
                    and str(cpl["p"][-1].get("o", "")).endswith("::Edge"):
                ap = E.ap_place(cfa, cpl)
                if ap is not None and ap.root == ("arg", 2):
                    reads.append(cfa.loc(cb, ci))
        if not reads:
            continue
        # the call in add_rule this closure is handed to
        for ub, ut in fa.calls():
            if len(ut["args"]) >= 2 and E.closure_of_operand(fa, ut["args"][-1]) and \
                    E.closure_of_operand(fa, ut["args"][-1])[0] == rv0["closure"]:
                n += 1
                chain = _chain_to_source(fa, ut["args"][0])
                src = [c for c in chain if c in SEL]
                first = src[0] if src else "?"
                if first not in ("last", "last_mut"):
                    bad.append((reads[0], first, chain[:6]))
    if n == 0:
        raise EngineError("FIRSTMATCH-BUILD: no read of an existing edge's target found in add_rule")
    ok = not bad
    ctx.ob("FIRSTMATCH-BUILD", "%s|reuse-only-the-newest-edge" % P_ADD, ok, _loc(crate, p),
           "add_rule follows an existing edge only when it is the last action of the node (%d "
           "reuse site(s)): the rules below every edge stay a contiguous run of rule numbers, so "
           "depth-first order is registration order" % n if ok else
           "add_rule shares an edge found by scanning all actions of the node (%s at %s): a rule "
           "whose pattern starts like an older rule is placed in front of the rules registered in "
           "between, and rewrite() - which returns the first match in trie order - applies it "
           "instead of the earlier rule (rules `*,x` `a,y` `*,y`: (a,y) is rewritten by the third)"
           % (bad[0][1], bad[0][0]))
    # new edges and rewrites are appended (push), never inserted in front
    pushes = [(b, t) for b, t in fa.calls() if _names(t) & {"push", "insert", "push_front"}
              and "Action" in fa.fn.locals[op_place(t["args"][-1])["l"]]["ty"]] \
        if True else []
    okp = bool(pushes) and all(_names(t) & {"push"} for b, t in pushes)
    ctx.ob("FIRSTMATCH-BUILD", "%s|actions-appended" % P_ADD, okp, _loc(crate, p),
           "new transitions and rewrites are appended to the node's action list (%d push sites)"
           % len(pushes) if okp else
           "an action is added to a node other than by push(): the action order is no longer the "
           "registration order")


def root_local_is(fa, op, local):
    pl = op_place(op)
    for _ in range(4):
        if pl is None or pl["p"]:
            return False
        if pl["l"] == local:
            return True
        d = fa.single_def(pl["l"])
        pl = op_place(d[3]["op"]) if d and d[2] == "assign" and d[3]["k"] == "use" else None
    return False


def scan(ctx, crate, E):
    p = _fn(crate, P_REW)
    fa = E.fa(p)
    S = Sym(E, fa)
    # the loop over a node's actions: a next() call whose iterator derives from `.actions`
    loops = []
    for b, t in fa.calls():
        if "next" not in _names(t):
            continue
        chain = _chain_to_source(fa, t["args"][0])
        txt = show(S.operand(t["args"][0]))
        if "actions" in txt and "next" not in chain and "as Rewrite" not in txt:
            loops.append((b, t, chain))
    # one scan per node: transitions and rewrites are tried in the one order they were registered
    # in. Searching the list once for a transition and once more for a rewrite loses that order
    # (a rewrite registered before a matching transition must win).
    searches = []
    for b, t in fa.calls():
        nm = _names(t)
        if nm & {"find_map", "find", "position", "rposition", "rfind", "any", "all", "for_each", "try_for_each",
                 "filter_map", "filter"} and t["args"]:
            ch = _chain_to_source(fa, t["args"][0])
            txt = show(S.operand(t["args"][0]))
            if "actions" in txt or "actions" in " ".join(ch):
                searches.append((fa.loc(b), sorted(nm)[0]))
            else:
                # a slice of the action list bound to a variable (`let pending = &node.actions[i..]`)
                src = fa.origin(t["args"][0])
                cur, hops = t["args"][0], 0
                while hops < 8:
                    hops += 1
                    o2 = fa.origin(cur)
                    if o2[0] != "call":
                        break
                    if "actions" in show(S.operand(o2[2]["args"][0])) if o2[2]["args"] else False:
                        searches.append((fa.loc(b), sorted(nm)[0]))
                        break
                    cur = o2[2]["args"][0] if o2[2]["args"] else None
                    if cur is None:
                        break
    if len(searches) + len(loops) > 1:
        ctx.ob("FIRSTMATCH-SCAN", "%s|ascending-scan" % P_REW, False, _loc(crate, p),
               "rewrite() goes over a node's actions more than once (%s): a transition and a rewrite are "
               "no longer tried in the order in which they were registered, so a longer rule registered "
               "later wins over a shorter rule registered first"
               % ", ".join("%s at %s" % (n_, l_) for l_, n_ in searches))
        return
    counted = None
    if not loops:
        # `let mut i = edge_idx; while let Some(action) = actions.get(i) { ..; i += 1 }`
        for b, t in fa.calls():
            if "get" not in _names(t) or len(t["args"]) != 2 or "actions" not in show(S.operand(t["args"][0])):
                continue
            sw0 = fa.term(b).get("t")
            if sw0 is None or fa.term(sw0)["k"] != "switch":
                continue
            ipl = op_place(t["args"][1])
            il = None
            for _ in range(4):
                if ipl is None or ipl["p"]:
                    break
                if len([d for d in fa.defs().get(ipl["l"], []) if d[2] != "partial"]) > 1:
                    il = ipl["l"]
                    break
                d0 = fa.single_def(ipl["l"])
                ipl = op_place(d0[3]["op"]) if d0 and d0[2] == "assign" and d0[3]["k"] == "use" else None
            if il is None:
                continue
            incs, other = [], []
            for (db, di, dk, dp) in fa.defs().get(il, []):
                if dk != "assign" or dp["k"] != "use":
                    other.append(db)
                    continue
                pl2 = op_place(dp["op"])
                dd = fa.single_def(pl2["l"]) if pl2 is not None and pl2["p"] else None
                if dd and dd[2] == "assign" and dd[3]["k"] == "binop" and dd[3]["op"].startswith("Add") and \
                        (op_const(dd[3]["b"]) or {}).get("int") == 1 and op_place(dd[3]["a"]) and \
                        root_local_is(fa, dd[3]["a"], il):
                    incs.append(db)
                else:
                    other.append(db)
            loops.append((b, t, ["get"]))
            counted = (il, incs, other)
    if len(loops) != 1:
        raise EngineError("FIRSTMATCH-SCAN: the action loop of rewrite() was not recognised (%d candidates)" % len(loops))
    nb, nt, chain = loops[0]
    allowed = {"iter", "enumerate", "skip", "into_iter", "deref", "index", "by_ref", "as_slice"}
    extra = [c for c in chain if c not in allowed]
    if counted is not None:
        il, incs, other = counted
        sw1 = fa.term(nb).get("t")
        st1 = fa.term(sw1)
        some1 = [tg for v, tg in zip(st1["vals"], st1["targets"]) if v == 1][0]
        # every way round the loop passes the `+= 1`; no other write to the index inside the loop
        outer1 = None
        for d1 in fa.dominators().get(nb, ()):
            if d1 != nb and d1 in fa.reachable(nb) and nb in fa.reachable(d1):
                if outer1 is None or fa.dominates(d1, outer1):
                    outer1 = d1
        av = {nb} | ({outer1} if outer1 is not None else set())
        inner = {x for x in fa.reachable(some1, avoid=av)
                 if nb in fa.reachable(x, avoid=({outer1} if outer1 is not None else set()))}
        round_ok = bool(incs) and nb not in fa.reachable(some1, avoid=set(incs) | {b0 for b0 in fa.live_blocks()
                                                                                 if b0 not in inner and b0 != nb})
        extra = [] if round_ok and not (set(other) & inner) else ["index not advanced by exactly 1 per action"]
    ctx.ob("FIRSTMATCH-SCAN", "%s|ascending-scan" % P_REW, not extra, fa.loc(nb),
           "rewrite() walks a node's actions front to back (%s)" % " <- ".join(chain) if not extra else
           "rewrite() does not walk the actions in the order they were added (%s in the iterator "
           "chain)" % ", ".join(extra))
    # no early exit: the only ways out of the action loop are exhaustion (None arm), descending
    # along a matching edge (back to the enclosing loop's header) and returning a result. A
    # `break` lands in the code that follows the loop while later actions of the node - e.g. the
    # Rewrite of a shorter rule stored behind a transition - are still unvisited.
    sw = fa.term(nb).get("t")
    st = fa.term(sw)
    some_t = [tg for v, tg in zip(st["vals"], st["targets"]) if v == 1][0]
    none_t = ([tg for v, tg in zip(st["vals"], st["targets"]) if v == 0] or [st["otherwise"]])[0]
    # header of the enclosing loop: the farthest dominator of the inner header that lies on a
    # cycle through it
    outer = None
    for d in fa.dominators().get(nb, ()):
        if d != nb and d in fa.reachable(nb) and nb in fa.reachable(d):
            if outer is None or fa.dominates(d, outer):
                outer = d
    if outer is None:
        raise EngineError("FIRSTMATCH-SCAN: the enclosing loop of the action scan was not found")
    # natural body of the inner loop
    fwd = fa.reachable(some_t, avoid={nb})
    body = {b for b in fwd if nb in fa.reachable(b, avoid={outer})}
    after = fa.reachable(none_t, avoid={outer})
    early = []
    for b in sorted(body):
        if fa.blocks[b].get("cleanup"):
            continue
        for x in fa.succs(b):
            if x in body or x == nb or x == outer or fa.blocks[x].get("cleanup"):
                continue                      # stays inside / next action / continue 'outer
            # follow empty trampolines; `continue 'outer` lands on the outer header, a `break`
            # lands in the code that follows the loop (where the exhausted scan also arrives)
            if fa.reachable(x, avoid={nb, outer}) & after:
                early.append((fa.loc(b), x))
    ctx.ob("FIRSTMATCH-SCAN", "%s|no-early-exit" % P_REW, not early, fa.loc(nb),
           "the scan of a node's actions ends only by exhaustion, by descending along a matching "
           "edge or by returning a rewrite" if not early else
           "the scan of a node's actions can stop early (jump out of the loop at %s): actions stored "
           "after that point - such as the rewrite of a shorter rule registered later - are never "
           "tried" % early[0][0])
    # the Rewrite arm returns: from the block that builds the result there is no way back to the loop
    rets = [b for b in fa.live_blocks() if fa.term(b)["k"] == "return"]
    somes = []
    for b, i, s in fa.stmts():
        rv = s.get("rv")
        if rv and rv["k"] == "agg" and rv.get("variant") == "Some" and s["lhs"]["l"] == 0:
            somes.append(b)
    okr = bool(somes) and all(nb not in fa.reachable(b) for b in somes)
    ctx.ob("FIRSTMATCH-SCAN", "%s|first-rewrite-returns" % P_REW, okr, _loc(crate, p),
           "the first Rewrite action reached ends the search (return Some(..))" if okr else
           "reaching a Rewrite action does not end the search: a later rule can replace the "
           "result of an earlier one")


def refsubst(ctx, crate, E):
    p = _fn(crate, P_REW)
    fa = E.fa(p)
    S = Sym(E, fa)
    ok = False
    why = "no features.get(idx) for a Reference found"
    # the expansion may be written in a closure of rewrite (`rule.iter().map(|r| ..).collect()`):
    # there `features` is a captured variable
    caps = {}
    for b, i, s0 in fa.stmts():
        rv = s0.get("rv")
        if rv and rv["k"] == "agg" and rv.get("agg") == "closure":
            caps[rv["closure"]] = [S.operand(x) for x in rv["ops"]]
    for q in [p] + sorted(caps):
        if q not in crate.fns or not crate.fns[q].body:
            continue
        qa = E.fa(q)
        QS = Sym(E, qa)
        for b, t in qa.calls():
            if "map_or" not in _names(t) or len(t["args"]) < 2:
                continue
            recv = QS.operand(t["args"][0])
            dflt = op_const(t["args"][1])
            o = qa.origin(t["args"][1])
            star = (dflt or {}).get("str") == "*" or (o[0] == "const" and o[1].get("str") == "*")
            if recv[0] != "ap" or "[]" not in recv[1].proj:
                continue
            root = recv[1].root
            if q != p and root == ("arg", 1) and str(recv[1].proj[0]).startswith("#"):
                k = int(str(recv[1].proj[0])[1:])
                c = caps[q][k] if k < len(caps[q]) else None
                root = c[1].root if c and c[0] == "ap" and not c[1].proj else None
            if root == ("arg", 2):
                ok = star
                why = "features.get(idx).map_or(%r, ..)" % ((dflt or {}).get("str") or (o[1].get("str") if o[0] == "const" else "?"))
    ctx.ob("REFSUBST", "%s|missing-feature-is-star" % P_REW, ok, _loc(crate, p),
           "a reference to a feature the input does not have expands to \"*\" (%s)" % why if ok else
           "a `$n` reference beyond the input is not expanded to \"*\" (%s)" % why)
    # add_rule: Reference(parse(n) - 1)
    p2 = _fn(crate, P_ADD)
    cl = [q for q in crate.fns if q.startswith(p2 + "::{closure") and crate.fns[q].body]
    found = False
    for q in cl + [p2]:
        fa2 = E.fa(q)
        S2 = Sym(E, fa2)
        for b, i, s in fa2.stmts():
            rv = s.get("rv")
            if rv and rv["k"] == "agg" and rv.get("variant") == "Reference":
                e = S2.operand(rv["ops"][0])
                txt = show(e)
                found = found or ("Sub(" in txt and txt.rstrip(")").endswith(", 1") or "Sub(" in txt and ", 1)" in txt)
    ctx.ob("REFSUBST", "%s|one-based-references" % P_ADD, found, _loc(crate, p2),
           "`$n` is stored as the zero-based index n - 1" if found else
           "`$n` is not stored as index n - 1: references are shifted by one feature")


def fallback(ctx, crate, E):
    p = _fn(crate, P_EXT)
    fa = E.fa(p)
    S = Sym(E, fa)
    rws = [(b, t) for b, t in fa.calls() if any(strip_generics(x).endswith("FeatureRewriter::rewrite")
                                                 for x in callee_paths(t))]
    ctx.floor("FALLBACK", "rewrite() calls in extract_feature_set", len(rws), 3)
    feats_src = {show(S.operand(t["args"][1])) for b, t in rws}
    k = 0
    for b, t in rws:
        sw = None
        # the switch on the Option discriminant of this call's result
        for sb in sorted(fa.live_blocks()):
            st = fa.term(sb)
            if st["k"] != "switch" or not fa.dominates(b, sb):
                continue
            o = fa.origin(st["op"])
            if o[0] == "rv" and o[1]["k"] == "discr" and o[1]["place"]["l"] == t["dest"]["l"]:
                sw = (sb, st)
                break
        if sw is None:
            # the Option is consumed by a defaulting combinator instead of a match
            consumer = None
            for cb, ct in fa.calls():
                if ct["args"] and fa.origin(ct["args"][0])[:2] == ("call", b):
                    consumer = sorted(_names(ct))[0]
            if consumer in ("unwrap_or_default", "unwrap", "expect"):
                ctx.ob("FALLBACK", "%s|rewrite-call|%d" % (P_EXT, k), False, fa.loc(b),
                       "the result of rewrite() is consumed by %s: when no rule matches, the "
                       "features are replaced (or the call panics) instead of being used unchanged"
                       % consumer)
                k += 1
                continue
            # consumed by a combinator with an explicit fallback (`unwrap_or(features)`, `as_ref()
            # .unwrap_or(&features)`): what the fallback is, is decided by REWSOURCES below
            k += 1
            continue
        sb, st = sw
        arms = dict(zip(st["vals"], st["targets"]))
        some_t = arms.get(1)
        none_t = arms.get(0, st["otherwise"])
        if some_t is None:
            raise EngineError("FALLBACK: unexpected discriminant switch at %s" % fa.loc(sb))
        def extractor_in(start, avoid):
            for eb in sorted(fa.reachable(start, avoid={avoid})):
                et = fa.term(eb)
                if et["k"] == "call" and any("extract_" in x and "feature_ids" in x for x in callee_paths(et)):
                    return eb, et
            return None
        es, en = extractor_in(some_t, none_t), extractor_in(none_t, some_t)
        ok, why = False, "an arm does not call a feature extractor"
        if es and en:
            same = sorted(_names(es[1])) == sorted(_names(en[1]))
            a_some = show(S.operand(es[1]["args"][1]))
            a_none = show(S.operand(en[1]["args"][1]))
            from_rw = "rewrite(" in a_some or a_some == "call@bb%d" % b
            orig = a_none == show(S.operand(t["args"][1]))
            ok = same and from_rw and orig
            why = "Some -> %s(%s), None -> %s(%s)" % (sorted(_names(es[1]))[0], a_some[:40],
                                                       sorted(_names(en[1]))[0], a_none[:40])
        ctx.ob("FALLBACK", "%s|rewrite-call|%d" % (P_EXT, k), ok, fa.loc(b),
               "rewritten features are used when a rule matched and the original ones otherwise, "
               "by the same extractor (%s)" % why if ok else
               "the two arms after rewrite() are not `rewritten -> extractor / original -> same "
               "extractor` (%s)" % why)
        k += 1


def rewsources(ctx, crate, E):
    """REWSOURCES (C17, C18): each of the three extractor calls of Trainer::extract_feature_set
    gets either the list its *own* section's rewriter produced or the *original* features - and
    every rewriter is applied to the original features. Decided on the backward slice of the
    argument, whatever the control shape (match, if-let, unwrap_or): the slice must end in the
    own rewriter's rewrite() call and in the parsed row, nowhere else (another section's output,
    a default)."""
    p = _fn(crate, P_EXT)
    fa = E.fa(p)
    names = crate.fns[p].j.get("param_names") or []

    def slice_of(op):
        """terminal sources of an operand: ('rw', block) | ('orig', block) | ('other', text)"""
        out = set()
        seen = set()
        work = [op]
        while work:
            o = work.pop()
            pl = op_place(o)
            if pl is None:
                continue
            l = pl["l"]
            if l in seen:
                continue
            seen.add(l)
            if 1 <= l <= fa.arg_count and not fa.defs().get(l):
                out.add(("other", "parameter %s" % (names[l - 1] if l - 1 < len(names) else l)))
                continue
            for (b, i, kind, payload) in fa.defs().get(l, []):
                if kind == "partial":
                    continue
                if kind == "call":
                    nm = sorted(_names(payload))[0]
                    if any(strip_generics(x).endswith("FeatureRewriter::rewrite") for x in callee_paths(payload)):
                        out.add(("rw", b))
                    elif nm == "parse_csv_row":
                        out.add(("orig", b))
                    elif nm in ("default", "new", "unwrap_or_default", "with_capacity", "from_elem"):
                        out.add(("other", "a fresh %s()" % nm))
                    else:
                        work.extend(payload["args"])
                else:
                    rv = payload
                    for key in ("op", "a", "b"):
                        if key in rv and isinstance(rv[key], dict):
                            work.append(rv[key])
                    if rv["k"] in ("ref", "rawptr"):
                        work.append({"c": rv["place"]})
                    if rv["k"] == "agg":
                        work.extend(rv["ops"])
        return out

    rws = {}
    for b, t in fa.calls():
        if any(strip_generics(x).endswith("FeatureRewriter::rewrite") for x in callee_paths(t)):
            o = fa.origin(t["args"][0])
            who = names[o[1] - 1] if o[0] == "arg" and o[1] - 1 < len(names) else "?"
            rws[b] = (who, t)
    n = 0
    for b, (who, t) in sorted(rws.items()):
        src = slice_of(t["args"][1])
        ok = bool(src) and all(x[0] == "orig" for x in src)
        n += 1
        ctx.ob("REWSOURCES", "%s|%s|applied-to-original-features" % (P_EXT, who), ok, fa.loc(b),
               "%s.rewrite() is applied to the parsed row" % who if ok else
               "%s.rewrite() is not applied to the original features alone but to %s: the sections "
               "of rewrite.def are independent, each sees the features as they are in the lexicon"
               % (who, sorted("%s's output" % rws[x[1]][0] if x[0] == "rw" else x[1] if x[0] == "other" else "the row"
                              for x in src)))
    by_kind = {}
    for b, t in fa.calls():
        nm = sorted(_names(t))[0]
        if not (nm.startswith("extract_") and nm.endswith("_feature_ids")) or len(t["args"]) < 2:
            continue
        by_kind.setdefault(nm, []).append((b, t))
    for nm, sites in sorted(by_kind.items()):
        b = sites[0][0]
        kind = nm[len("extract_"):-len("_feature_ids")]
        src = set()
        for _b, _t in sites:           # one call per arm or one call for both: judge the union
            src |= slice_of(_t["args"][1])
        own = {x for x in src if x[0] == "rw" and kind in rws[x[1]][0]}
        foreign = {x for x in src if x[0] == "rw" and kind not in rws[x[1]][0]}
        other = {x for x in src if x[0] == "other"}
        has_orig = any(x[0] == "orig" for x in src)
        ok = bool(own) and has_orig and not foreign and not other
        n += 1
        why = []
        if not own:
            why.append("never the output of the %s rewriter" % kind)
        if not has_orig:
            why.append("never the original features (no fallback)")
        if foreign:
            why.append("the output of %s" % sorted(rws[x[1]][0] for x in foreign))
        if other:
            why.append(", ".join(sorted(x[1] for x in other)))
        ctx.ob("REWSOURCES", "%s|%s|own-rewrite-or-original" % (P_EXT, nm), ok, fa.loc(b),
               "%s receives the %s rewriter's output or, when no rule matched, the original features"
               % (nm, kind) if ok else
               "%s can receive %s: when no %s rule matches the features must be used unchanged, and "
               "another section's rules never apply" % (nm, "; ".join(why), kind))
    ctx.floor("REWSOURCES", "rewrite and extractor calls judged", n, 6)


def sections(ctx, crate, E):
    p = _fn(crate, P_CFG)
    fa = E.fa(p)
    S = Sym(E, fa)
    want = {"[unigram rewrite]": 0, "[left rewrite]": 1, "[right rewrite]": 2}
    # position of each builder local in the returned tuple (through FeatureRewriter::from)
    pos = {}
    for b, i, s in fa.stmts():
        rv = s.get("rv")
        if rv and rv["k"] == "agg" and rv.get("agg") == "tuple" and len(rv["ops"]) == 3:
            for k, o in enumerate(rv["ops"]):
                oo = fa.origin(o)
                if oo[0] == "call" and "from" in _names(oo[2]):
                    src = fa.origin(oo[2]["args"][0])
                    if src[0] == "call":
                        pos[src[1]] = k          # block of the builder's constructor call
                    elif src[0] == "place" and src[1].root[0] == "local":
                        pos[("local", src[1].root[1])] = k
    if len(pos) != 3:
        if _sections_indexed(ctx, crate, fa, p, want):
            return
        raise EngineError("SECTIONS: the (unigram, left, right) result tuple of parse_rewrite_config "
                          "was not recognised")
    found = {}
    for b, t in fa.calls():
        if not (_names(t) & {"eq", "ne"}) or len(t["args"]) != 2:
            continue
        lit = None
        for a in t["args"]:
            o = fa.origin(a)
            if o[0] == "const" and o[1].get("str") in want:
                lit = o[1]["str"]
        if lit is None:
            continue
        sw = t.get("t")
        st = fa.term(sw) if sw is not None else None
        if st is None or st["k"] != "switch":
            continue
        f_t, t_t = bool_switch_targets(st)
        arm = t_t if "eq" in _names(t) else f_t
        other = f_t if "eq" in _names(t) else t_t
        # first `&mut <builder>` taken in that arm
        hit = None
        order, seen_b = [arm], {arm, other}
        for ab in order:                      # breadth-first from the arm's first block
            for x in fa.succs(ab):
                if x not in seen_b and not fa.blocks[x].get("cleanup"):
                    seen_b.add(x)
                    order.append(x)
        for ab in order:
            for s in fa.blocks[ab]["stmts"]:
                rv = s.get("rv")
                if rv and rv["k"] == "ref" and rv.get("bk") == "mut" and not rv["place"]["p"]:
                    l = rv["place"]["l"]
                    d = fa.single_def(l)
                    key = d[0] if d and d[2] == "call" else ("local", l)
                    if key in pos and hit is None:
                        hit = pos[key]
            if hit is not None:
                break
        found[lit] = hit
    for lit, k in want.items():
        ok = found.get(lit) == k
        ctx.ob("SECTIONS", "%s|%s" % (P_CFG, lit), ok, _loc(crate, p),
               "%s fills the builder returned in position %d of (unigram, left, right)" % (lit, k) if ok else
               "%s fills the builder returned in position %s (expected %d): the rules of one section "
               "are applied to another feature side" % (lit, found.get(lit), k))


def _sections_indexed(ctx, crate, fa, p, want):
    """The three builders kept in one array `[new(), new(), new()]`, the current section as an index:
    header k stores `Some(j)`, rules go to `builders[j]`, and element j of the array ends up in
    position pos[j] of the returned tuple - header k must reach position k."""
    def follow(op):
        pl = op_place(op)
        for _ in range(8):
            if pl is None or pl["p"]:
                return pl
            d = fa.single_def(pl["l"])
            if d is None or d[2] != "assign" or d[3]["k"] != "use" or op_place(d[3]["op"]) is None:
                return pl
            pl = op_place(d[3]["op"])
        return pl
    arrays = [s0["lhs"]["l"] for b, i, s0 in fa.stmts()
              if "rv" in s0 and s0["rv"]["k"] == "agg" and s0["rv"].get("agg") == "array" and len(s0["rv"]["ops"]) == 3
              and not s0["lhs"]["p"]]
    pos = {}
    arr = None
    for b, i, s0 in fa.stmts():
        rv = s0.get("rv")
        if rv and rv["k"] == "agg" and rv.get("agg") == "tuple" and len(rv["ops"]) == 3:
            for k, o in enumerate(rv["ops"]):
                oo = fa.origin(o)
                if oo[0] == "call" and "from" in _names(oo[2]) and oo[2]["args"]:
                    pl = follow(oo[2]["args"][0])
                    ci = [e for e in (pl["p"] if pl else []) if isinstance(e, dict) and "ci" in e and not e.get("from_end")]
                    if pl is not None and pl["l"] in arrays and len(ci) == 1 and len(pl["p"]) == 1:
                        pos[ci[0]["ci"]] = k
                        arr = pl["l"]
    if len(pos) != 3 or arr is None:
        return False
    # the index variable: `builders[idx]` as the receiver of add_rule
    idx_locals = set()
    for b, i, s0 in fa.stmts():
        rv = s0.get("rv")
        if rv and rv["k"] == "ref" and rv["place"]["l"] == arr:
            idx_locals |= {e["i"] for e in rv["place"]["p"] if isinstance(e, dict) and isinstance(e.get("i"), int)}
    from flow import back_slice
    sect = set()
    for il in idx_locals:
        for x in back_slice(fa, {"c": {"l": il, "p": []}}, lambda b, t: None):
            pass
        # locals the index is copied from (the payload of the section variable)
        cur = {"l": il, "p": []}
        for _ in range(6):
            d = fa.single_def(cur["l"])
            if d is None or d[2] != "assign" or d[3]["k"] != "use" or op_place(d[3]["op"]) is None:
                break
            cur = op_place(d[3]["op"])
            if cur["p"]:
                sect.add(cur["l"])
                break
    if len(sect) != 1:
        return False
    sv = next(iter(sect))
    found = {}
    for b, t in fa.calls():
        if not (_names(t) & {"eq", "ne"}) or len(t["args"]) != 2:
            continue
        lit = None
        for a in t["args"]:
            o = fa.origin(a)
            if o[0] == "const" and o[1].get("str") in want:
                lit = o[1]["str"]
        if lit is None:
            continue
        sw = t.get("t")
        st = fa.term(sw) if sw is not None else None
        if st is None or st["k"] != "switch":
            continue
        f_t, t_t = bool_switch_targets(st)
        arm = t_t if "eq" in _names(t) else f_t
        other = f_t if "eq" in _names(t) else t_t
        order, seen_b = [arm], {arm, other}
        for ab in order:
            for x in fa.succs(ab):
                if x not in seen_b and not fa.blocks[x].get("cleanup"):
                    seen_b.add(x)
                    order.append(x)
        hit = None
        some = {}           # temporaries holding `Some(<constant>)`
        for ab in order:
            for s0 in fa.blocks[ab]["stmts"]:
                rv = s0.get("rv")
                if "lhs" not in s0 or s0["lhs"]["p"] or not rv:
                    continue
                val = None
                if rv["k"] == "agg" and rv.get("variant") == "Some" and len(rv["ops"]) == 1:
                    k0 = op_const(rv["ops"][0])
                    val = k0["int"] if k0 is not None and "int" in k0 else None
                    some[s0["lhs"]["l"]] = val
                elif rv["k"] == "use" and op_place(rv["op"]) is not None and not op_place(rv["op"])["p"]:
                    val = some.get(op_place(rv["op"])["l"])
                if s0["lhs"]["l"] == sv and val is not None and hit is None:
                    hit = pos.get(val, "element %s" % val)
            if hit is not None:
                break
        found[lit] = hit
    for lit, k in want.items():
        ok = found.get(lit) == k
        ctx.ob("SECTIONS", "%s|%s" % (P_CFG, lit), ok, _loc(crate, p),
               "%s fills the builder returned in position %d of (unigram, left, right)" % (lit, k) if ok else
               "%s fills the builder returned in position %s (expected %d): the rules of one section "
               "are applied to another feature side" % (lit, found.get(lit), k))
    return True


def rulecells(ctx, crate, E):
    """RULECELLS (C17): the pattern and the rewrite of a rule are the comma-separated cells of
    their columns, all of them. `*` matches anything but still *requires* a feature at its
    position, so a pattern `a,*,*` does not match a two-column row; dropping trailing `*` cells
    (or any other cell) from what parse_rewrite_rule returns changes which rows a rule matches."""
    p = "vibrato::trainer::config::TrainerConfig::parse_rewrite_rule"
    f = crate.fns.get(p)
    if f is None or not f.body:
        raise EngineError("RULECELLS: anchor lost: %s" % p)
    shrink = []
    splits = []
    region = [p] + sorted(q for q in crate.fns if q.startswith(p + "::{closure") and crate.fns[q].body)
    for q in region:
        fa = E.fa(q)
        for b, t in fa.calls():
            nm = sorted(_names(t))[0]
            if nm in ("pop", "truncate", "retain", "retain_mut", "drain", "remove", "swap_remove", "dedup",
                      "clear", "split_off", "trim_end_matches", "trim_matches", "strip_suffix", "take_while",
                      "skip_while", "filter", "rsplitn", "splitn"):
                shrink.append("%s (%s)" % (nm, fa.loc(b)))
            if nm == "split" and len(t["args"]) > 1:
                splits.append(b)
    if len(region) > 1 and len(splits) == 1:
        splits = splits * 2        # one split in a closure applied to both columns
    ctx.floor("RULECELLS", "comma splits in parse_rewrite_rule", len(splits), 2)
    ctx.ob("RULECELLS", "%s|all-cells-kept" % p, not shrink, _loc(crate, p),
           "parse_rewrite_rule returns every comma-separated cell of the pattern and of the rewrite"
           if not shrink else
           "parse_rewrite_rule removes cells or characters from the columns it splits (%s): a rule "
           "then matches rows it should not (a trailing `*` still demands a feature at its position)"
           % ", ".join(shrink))


def run(ctx):
    crate = ctx.facts("A").lib
    E = Effects(crate)
    errs = []
    for sub in (build, scan, refsubst, fallback, rewsources, sections, rulecells):
        try:
            sub(ctx, crate, E)
        except EngineError as e:
            errs.append(str(e))
        except Exception as e:
            errs.append("%s could not analyse this tree (%s: %s)" % (sub.__name__, type(e).__name__, e))
    ctx.assume("C17: the rules decide that trie order is registration order (builder) and that the "
               "matcher is a front-to-back depth-first search returning the first Rewrite; the "
               "matcher's backtracking bookkeeping and the pattern tests themselves are not decided")
    if errs:
        raise EngineError("; ".join(errs))

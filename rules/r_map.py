"""MAP: connection-id remapping is applied everywhere, kept, composed, validated (C06, C08)."""
import json
import os

from effects import Effects
from facts import EngineError, VERIF
from flow import (result_exits, must_pass, can_reach, calls_named, switch_on_discriminant_of, reach_const,
                  bool_switch_targets, stores_to, value_defs)
from mir import AP, callee_of, callee_paths, op_place, op_const, strip_generics

INNER = "vibrato::dictionary::DictionaryInner"
P_MAP = "vibrato::dictionary::Dictionary::map_connection_ids_from_iter"
P_RESET = "vibrato::dictionary::Dictionary::reset_user_lexicon_from_reader"
MAPFN = "map_connection_ids"


def peel_option(ty):
    if ty.startswith("std::option::Option<") and ty.endswith(">"):
        return ty[len("std::option::Option<"):-1], True
    return ty, False


def types_with_map_method(crate):
    out = set()
    for p, f in crate.fns.items():
        if f.name == MAPFN and f.j.get("impl_self_adt"):
            out.add(f.j["impl_self_adt"])
    return out


def fn_loc(crate, p):
    f = crate.fns[p]
    return "%s:%s" % (f.file, f.line)


def mapall(ctx, E, crate):
    fa = E.fa(P_MAP)
    ok_b, err_b, other_b = result_exits(fa)
    if not ok_b:
        raise EngineError("MAPALL: no Ok exit found in %s" % P_MAP)
    mappable = types_with_map_method(crate)
    inner = crate.adt(INNER)
    map_calls = calls_named(fa, MAPFN)
    ctx.count("MAP", "map_connection_ids call sites in map_connection_ids_from_iter", len(map_calls))
    # the mapper argument must be one and the same value for all calls
    mapper_aps = set()
    for b, t in map_calls:
        if len(t["args"]) >= 2:
            mapper_aps.add(repr(E.ap_operand(fa, t["args"][1])))
    ncomp = 0
    for f in inner["variants"][0]["fields"]:
        ty, opt = peel_option(f["ty"])
        adt = ty.split("<")[0]
        if adt not in mappable:
            continue
        ncomp += 1
        fap = AP(("arg", 1), ("data", f["name"]))
        blocks = [b for b, t in map_calls if t["args"] and E.ap_operand(fa, t["args"][0]) == fap]
        through = set(blocks)
        if opt:
            for (sb, some_t, none_ts) in switch_on_discriminant_of(E, fa, fap):
                through.update(none_ts)
        ok = bool(blocks) and all(must_pass(fa, o, through) for o in ok_b)
        ctx.ob("MAPALL", "%s|component|%s" % (P_MAP, f["name"]), ok, fn_loc(crate, P_MAP),
               "id-carrying component `%s` (%s) %s" % (
                   f["name"], f["ty"],
                   "is remapped on every path to Ok" if ok else
                   "is NOT remapped on every successful path of map_connection_ids_from_iter: "
                   "its connection ids would stay in the old numbering while the connector is "
                   "permuted"),
               {"call_blocks": sorted(blocks), "ok_exits": sorted(ok_b)})
    ctx.floor("MAPALL", "id-carrying components of DictionaryInner", ncomp, 4)
    ctx.ob("MAPALL", "%s|same-mapper" % P_MAP, len(mapper_aps) == 1, fn_loc(crate, P_MAP),
           "all components are remapped with one and the same mapper value" if len(mapper_aps) == 1
           else "components are remapped with different mapper values: %s" % sorted(mapper_aps))
    # data.mapper assigned on every Ok path
    map_ap = AP(("arg", 1), ("data", "mapper"))
    st = stores_to(E, fa, lambda ap: ap == map_ap)
    sb = {b for b, i, s in st}
    ok = bool(sb) and all(must_pass(fa, o, sb) for o in ok_b)
    ctx.ob("MAPKEEP", "%s|stores-mapper" % P_MAP, ok, fn_loc(crate, P_MAP),
           "the applied mapper is stored in `data.mapper` on every path to Ok" if ok else
           "`data.mapper` is not assigned on every successful path: a user lexicon loaded "
           "later would not be translated")
    return fa, ok_b, err_b, map_calls, st


def maplen(ctx, E, crate, fa, ok_b, map_calls):
    map_blocks = {b for b, t in map_calls}
    if len(map_calls) < 1:
        return
    mapper_ap = E.ap_operand(fa, map_calls[0][1]["args"][1])
    conn_ap = AP(("arg", 1), ("data", "connector"))
    found = {}
    for b in sorted(fa.live_blocks()):
        t = fa.term(b)
        if t["k"] != "switch" or t.get("ty") != "bool":
            continue
        o = fa.origin(t["op"])
        if o[0] != "rv" or o[1]["k"] != "binop" or o[1]["op"] not in ("Eq", "Ne", "Lt", "Gt", "Le", "Ge"):
            continue
        sides = []
        for opnd in (o[1]["a"], o[1]["b"]):
            oo = fa.origin(opnd)
            if oo[0] != "call":
                sides = []
                break
            c = callee_of(oo[2])
            nm = c.get("name") or c["path"].rsplit("::", 1)[-1]
            ap = E.ap_operand(fa, oo[2]["args"][0]) if oo[2]["args"] else None
            sides.append((nm, ap))
        if len(sides) != 2:
            continue
        names = {s[0] for s in sides}
        aps = [s[1] for s in sides]
        if len(names) == 1 and list(names)[0] in ("num_left", "num_right") and \
                mapper_ap in aps and conn_ap in aps:
            f_t, t_t = bool_switch_targets(t)
            found.setdefault(list(names)[0], []).append((b, f_t, t_t))
        elif names == {"num_left", "num_right"} and mapper_ap in aps and conn_ap in aps:
            ctx.ob("MAPLEN", "%s|crossed-compare" % P_MAP, False, fa.loc(b),
                   "the length check compares the mapper's %s with the connector's %s "
                   "(left and right sides crossed)" % (sides[0][0], sides[1][0]))
    # comparisons whose result is kept in a flag (`let fits = a == b && c == d;`) instead of being
    # branched on directly: follow the flag's value on the mismatch outcome
    flagged = {}
    for b, i, s0 in fa.stmts():
        rv = s0.get("rv")
        if not rv or rv["k"] != "binop" or rv["op"] not in ("Eq", "Ne") or s0["lhs"]["p"]:
            continue
        sides = []
        for opnd in (rv["a"], rv["b"]):
            oo = fa.origin(opnd)
            if oo[0] != "call":
                sides = []
                break
            c = callee_of(oo[2])
            nm = c.get("name") or c["path"].rsplit("::", 1)[-1]
            ap = E.ap_operand(fa, oo[2]["args"][0]) if oo[2]["args"] else None
            sides.append((nm, ap))
        if len(sides) != 2:
            continue
        names = {x[0] for x in sides}
        aps = [x[1] for x in sides]
        if len(names) == 1 and list(names)[0] in ("num_left", "num_right") and mapper_ap in aps and conn_ap in aps:
            side = list(names)[0]
            if side in found:
                continue
            mismatch = 0 if rv["op"] == "Eq" else 1
            r = reach_const(fa, b, env0={s0["lhs"]["l"]: mismatch}, after_stmt=i)
            # ... and no mapping call is reached on a path that skips this comparison
            around = reach_const(fa, 0, avoid={b})
            flagged[side] = (b, not (r & ok_b) and not (r & map_blocks) and not (around & map_blocks))
    for side in ("num_left", "num_right"):
        cands = found.get(side, [])
        ok = False
        if not cands and side in flagged:
            ok = flagged[side][1]
            ctx.ob("MAPLEN", "%s|%s" % (P_MAP, side), ok, fn_loc(crate, P_MAP),
                   "mapper.%s() is compared with the connector's before any component is remapped; "
                   "a mismatch returns Err" % side if ok else
                   "wrong-length mappings are not rejected before use (the mismatch outcome of the %s "
                   "comparison still reaches a mapping call or Ok): the connectors would panic or the "
                   "lexicon mapping would index out of range" % side)
            continue
        why = "no comparison of mapper.%s() with connector.%s() found" % (side, side)
        for (b, f_t, t_t) in cands:
            # one edge must lead only to Err exits and to no mapping call
            for bad, good in ((f_t, t_t), (t_t, f_t)):
                r = reach_const(fa, bad)
                if not (r & ok_b) and not (r & map_blocks):
                    # every mapping call must be dominated by the check
                    if all(fa.dominates(b, mb) for mb in map_blocks):
                        ok = True
                    else:
                        why = "a mapping call is not dominated by the %s check" % side
                    break
            else:
                why = "both outcomes of the %s comparison continue to the mapping" % side
        ctx.ob("MAPLEN", "%s|%s" % (P_MAP, side), ok, fn_loc(crate, P_MAP),
               "mapper.%s() is compared with the connector's before any component is remapped; "
               "a mismatch returns Err" % side if ok else
               "wrong-length mappings are not rejected before use (%s): the connectors would "
               "panic or the lexicon mapping would index out of range" % why)


def lookup_compositions(E, crate, path, depth=0):
    """Find `X.left(v)` / `X.right(v)` lookups where v is an element of `Y.left` / `Y.right`
    (through iterator closures or directly).  Returns [(side, outer_arg, inner_arg, inner_field)]
    with arg = index of the parameter of `path` the mapper derives from."""
    out = []
    fa = E.fa(path)
    # direct form
    for side in ("left", "right"):
        for b, t in calls_named(fa, side):
            c = callee_of(t)
            if "ConnIdMapper" not in c["path"] or len(t["args"]) < 2:
                continue
            x = E.ap_operand(fa, t["args"][0])
            o = fa.origin(t["args"][1])
            yap = None
            if o[0] == "place":
                yap = o[1]
            elif o[0] == "cast" and o[2][0] == "place":
                yap = o[2][1]
            if x is not None and x.root[0] == "arg" and (yap is None or yap.root[0] != "arg"):
                # the looked-up id is an item of an adaptor chain (`for (dst, &id) in
                # out.iter_mut().zip(&other.left)`): the mapper tables the chain is built over
                work_, seen_, found_ = [t["args"][1]], 0, []
                while work_ and seen_ < 80:
                    seen_ += 1
                    w_ = work_.pop()
                    ap_ = E.ap_operand(fa, w_)
                    if ap_ is not None and ap_.root[0] == "arg" and ap_.proj and str(ap_.proj[0]) in ("left", "right"):
                        found_.append(ap_)
                        continue
                    o_ = fa.origin(w_)
                    if o_[0] == "call":
                        work_.extend(o_[2]["args"])
                    elif o_[0] == "place" and o_[1].root[0] == "call":
                        work_.extend(fa.term(o_[1].root[1])["args"])
                for ap_ in found_:
                    out.append((side, x.root[1], ap_.root[1], str(ap_.proj[0])))
                if found_:
                    continue
            if x is None or x.root[0] != "arg" or yap is None:
                continue
            yap2 = E.ap_place(fa, op_place(t["args"][1])) if op_place(t["args"][1]) else yap
            for cand in (yap, yap2):
                if cand.root[0] == "arg" and "[]" in cand.proj and len(cand.proj) >= 2:
                    out.append((side, x.root[1], cand.root[1], cand.proj[0]))
                    break
    # closure form: Iterator::map(iter over Y.field, closure capturing X)
    for b, t in fa.calls():
        ps = callee_paths(t)
        if not any(p.endswith("Iterator::map") for p in ps) or len(t["args"]) < 2:
            continue
        it_ap = E.ap_operand(fa, t["args"][0])
        cl = E.closure_of_operand(fa, t["args"][1])
        if it_ap is None or cl is None or it_ap.root[0] != "arg" or not it_ap.proj:
            continue
        cpath, caps = cl
        cfa = E.fa(cpath)
        for side in ("left", "right"):
            for cb, ct in calls_named(cfa, side):
                cc = callee_of(ct)
                if "ConnIdMapper" not in cc["path"] or len(ct["args"]) < 2:
                    continue
                x = E.ap_operand(cfa, ct["args"][0])
                xm = Effects.map_closure_ap(x, caps) if x is not None else None
                # index must come from the closure parameter (arg 2)
                o = cfa.origin(ct["args"][1])
                from_param = False
                if o[0] == "place" and o[1].root == ("arg", 2):
                    from_param = True
                elif o[0] == "arg" and o[1] == 2:
                    from_param = True
                else:
                    pl = op_place(ct["args"][1])
                    if pl is not None and E.ap_place(cfa, pl).root == ("arg", 2):
                        from_param = True
                if xm is not None and xm.root[0] == "arg" and from_param:
                    out.append((side, xm.root[1], it_ap.root[1], it_ap.proj[0]))
        # the lookup written as an index into the other mapper's table: `|&id| table[id]`
        from flow import back_slice
        for cb, ci, cs in cfa.stmts():
            rv = cs.get("rv") or {}
            pl = op_place(rv.get("op")) if rv.get("k") == "use" else None
            idx = [e for e in (pl["p"] if pl else []) if isinstance(e, dict) and isinstance(e.get("i"), int)]
            if not idx:
                continue
            x = E.ap_place(cfa, pl)
            xm = Effects.map_closure_ap(x, caps) if x is not None else None
            src = back_slice(cfa, {"c": {"l": idx[0]["i"], "p": []}}, lambda b_, t_: None)
            if xm is not None and xm.root[0] == "arg" and xm.proj and str(xm.proj[0]) in ("left", "right") \
                    and ("arg", 2) in src:
                out.append((str(xm.proj[0]), xm.root[1], it_ap.root[1], it_ap.proj[0]))
    return out


def mapcompose(ctx, E, crate, fa, ok_b, stores):
    """The stored mapper must be the composition previous-then-new."""
    map_ap = AP(("arg", 1), ("data", "mapper"))
    # reads of the previous mapper
    prev_reads = []
    for b, t in fa.calls():
        if t["args"] and E.ap_operand(fa, t["args"][0]) == map_ap:
            ps = [strip_generics(x) for x in callee_paths(t)]
            if any(p.endswith("Option::take") or p.endswith("Option::as_ref")
                   or p.endswith("Option::clone") or p.endswith("::clone")
                   or p.endswith("Option::replace") for p in ps):
                prev_reads.append(b)
    if not prev_reads:
        ctx.ob("MAPCOMPOSE", "%s|uses-previous" % P_MAP, False, fn_loc(crate, P_MAP),
               "the mapper stored by map_connection_ids_from_iter does not depend on the previously "
               "stored mapper: a second mapping discards the first, so a user lexicon loaded "
               "afterwards is translated by the last mapping only")
        return
    # find, among the definitions of the stored value, a call taking both prev and the new mapper
    found = None
    for (b, i, s) in stores:
        rv = s["rv"]
        pl = op_place(rv["op"]) if rv["k"] == "use" else None
        if pl is None:
            continue
        for (db, kind, payload) in value_defs(fa, pl["l"]):
            cands = []
            if kind == "assign" and payload["k"] == "agg":
                for o in payload["ops"]:
                    p2 = op_place(o)
                    if p2 is not None:
                        cands.extend(value_defs(fa, p2["l"]))
            else:
                cands.append((db, kind, payload))
            for (cb, ck, cp) in cands:
                if ck != "call":
                    continue
                aps = [E.ap_operand(fa, a) for a in cp["args"]]
                roots = []
                for ap in aps:
                    if ap is None:
                        roots.append(None)
                    elif ap.root[0] == "call" and ap.root[1] in prev_reads:
                        roots.append("prev")
                    elif ap == map_ap:
                        roots.append("prev")
                    else:
                        roots.append("new")
                if "prev" in roots and "new" in roots:
                    found = (cb, cp, roots)
    if found is None:
        # `self.data.mapper.as_ref().map(|prev| prev.compose(&mapper))`: the composition inside the
        # closure of an Option combinator applied to the previous mapper
        for b, t in fa.calls():
            nm = {strip_generics(x).rsplit("::", 1)[-1] for x in callee_paths(t)}
            if not (nm & {"map", "map_or", "map_or_else", "and_then"}) or len(t["args"]) < 2:
                continue
            rap = E.ap_operand(fa, t["args"][0])
            recv_prev = rap is not None and (rap == map_ap or (rap.root[0] == "call" and rap.root[1] in prev_reads))
            cl = E.closure_of_operand(fa, t["args"][-1])
            if not recv_prev or cl is None:
                continue
            cfa = E.fa(cl[0])
            for cb, ct in cfa.calls():
                if not ct["args"] or len(ct["args"]) < 2:
                    continue
                roots = []
                for a in ct["args"]:
                    ap = E.ap_operand(cfa, a)
                    if ap is None:
                        roots.append(None)
                    elif ap.root == ("arg", 2):
                        roots.append("prev")
                    elif ap.root == ("arg", 1):
                        pm = Effects.map_closure_ap(ap, cl[1])
                        roots.append("prev" if pm is not None and (pm == map_ap or (
                            pm.root[0] == "call" and pm.root[1] in prev_reads)) else "new")
                    else:
                        roots.append("new")
                if "prev" in roots and "new" in roots:
                    found = (cb, ct, roots)
    if found is None:
        ctx.ob("MAPCOMPOSE", "%s|composes" % P_MAP, False, fn_loc(crate, P_MAP),
               "the previous mapper is read but the stored value is not computed from both the "
               "previous and the new mapper")
        return
    cb, cp, roots = found
    c = callee_of(cp)
    cpath = (c.get("resolved") or c)["path"]
    comps = lookup_compositions(E, crate, cpath) if cpath in crate.fns else []
    ctx.count("MAP", "composition lookups found in " + cpath.split("::")[-1], len(comps))
    sides_ok = {}
    for (side, outer, inner, inner_field) in comps:
        r_outer = roots[outer - 1] if outer - 1 < len(roots) else None
        r_inner = roots[inner - 1] if inner - 1 < len(roots) else None
        good = r_inner == "prev" and r_outer == "new" and inner_field == side
        sides_ok.setdefault(side, []).append((good, r_outer, r_inner, inner_field))
    for side in ("left", "right"):
        res = sides_ok.get(side)
        if not res:
            raise EngineError("MAPCOMPOSE: cannot recognise how %s composes the %s mappings "
                              "(unsupported idiom)" % (cpath, side))
        ok = all(g for g, _, _, _ in res)
        ctx.ob("MAPCOMPOSE", "%s|order|%s" % (P_MAP, side), ok, fa.loc(cb),
               "stored %s mapping = new ∘ previous (ids of a later user lexicon pass through the "
               "previous mapping first, then the new one)" % side if ok else
               "the stored %s mapping composes the mappers in the wrong order or crosses sides "
               "(lookup in the %s mapper is indexed by elements of the %s mapper's `%s`): after "
               "two non-commuting mappings a user lexicon loaded later gets wrong ids"
               % (side, res[0][1], res[0][2], res[0][3]),
               {"callee": cpath, "bindings": roots})


def _peel(fa, pl):
    """`(x as Some).0`, `(x as Ok).0` .. where x is built by `Some(y)` / `Ok(y)` aggregates: the place
    of y (the value that went into the wrapper), through any number of wrappers and plain copies."""
    for _ in range(8):
        if pl is None:
            return pl
        p = pl["p"]
        if len(p) >= 2 and isinstance(p[0], dict) and "dc" in p[0] and isinstance(p[1], dict) and "f" in p[1]:
            want = p[0].get("n")
            cands = [d for d in fa.defs().get(pl["l"], [])
                     if d[2] == "assign" and d[3]["k"] == "agg" and d[3].get("variant") == want and len(d[3]["ops"]) > p[1]["f"]]
            if not cands:
                # a plain copy of another local (the return slot of an expanded closure / helper)
                d1 = fa.single_def(pl["l"])
                if d1 is not None and d1[2] == "assign" and d1[3]["k"] == "use" and op_place(d1[3]["op"]) is not None \
                        and not op_place(d1[3]["op"])["p"]:
                    pl = {"l": op_place(d1[3]["op"])["l"], "p": list(p)}
                    continue
            if len(cands) != 1:
                return pl
            ip = op_place(cands[0][3]["ops"][p[1]["f"]])
            if ip is None:
                return pl
            pl = {"l": ip["l"], "p": list(ip["p"]) + list(p[2:])}
            continue
        if not p:
            d = fa.single_def(pl["l"])
            if d is not None and d[2] == "assign" and d[3]["k"] == "use" and op_place(d[3]["op"]) is not None:
                pl = op_place(d[3]["op"])
                continue
        return pl
    return pl


def mapkeep_user(ctx, E, crate):
    fa = E.fa(P_RESET)
    ok_b, err_b, other_b = result_exits(fa)
    ul_ap = AP(("arg", 1), ("data", "user_lexicon"))
    map_ap = AP(("arg", 1), ("data", "mapper"))
    conn_ap = AP(("arg", 1), ("data", "connector"))
    stores = stores_to(E, fa, lambda ap: ap == ul_ap)
    if not stores:
        raise EngineError("MAPKEEP: no store to data.user_lexicon in %s" % P_RESET)
    n_some = 0
    for (b, i, s) in stores:
        rv = s["rv"]
        pl = op_place(rv["op"]) if rv["k"] == "use" else None
        defs = value_defs(fa, pl["l"]) if pl is not None else []
        for (db, kind, payload) in defs:
            if kind != "assign" or payload["k"] != "agg":
                ctx.ob("MAPKEEP", "%s|store-shape" % P_RESET, False, fa.loc(b),
                       "value stored into data.user_lexicon is not an Option constructor")
                continue
            if payload["variant"] == "None":
                ctx.ob("MAPKEEP", "%s|none-clears" % P_RESET, True, fa.loc(b),
                       "a `None` argument stores `None` (clears the user lexicon)")
                continue
            n_some += 1
            xpl = _peel(fa, op_place(payload["ops"][0]))
            xap = E.ap_place(fa, xpl)
            # (i) mapped under the stored mapper
            mcalls = [(cb, ct) for cb, ct in calls_named(fa, MAPFN)
                      if ct["args"] and E.ap_operand(fa, ct["args"][0]) == xap
                      and len(ct["args"]) > 1 and E.ap_operand(fa, ct["args"][1]) == map_ap]
            through = {cb for cb, ct in mcalls}
            for (sb, some_t, none_ts) in switch_on_discriminant_of(E, fa, map_ap):
                through.update(none_ts)
            # judged at the point where `Some(new lexicon)` is built (the store itself may be one
            # statement shared with the `None` case: `field = reader.map(..).transpose()?`)
            from flow import reach_const as _rc0
            ok = bool(mcalls) and (db in through or db not in _rc0(fa, 0, avoid=through))
            ctx.ob("MAPKEEP", "%s|translated-by-stored-mapper" % P_RESET, ok, fa.loc(b),
                   "a user lexicon loaded into a mapped dictionary is translated with the stored "
                   "mapper before it is installed" if ok else
                   "the new user lexicon is installed without being translated by `data.mapper`: "
                   "on a remapped dictionary its connection ids would be in the old numbering")
            # (ii) verified against the connector, failing edge -> Err
            vcalls = [(cb, ct) for cb, ct in calls_named(fa, "verify")
                      if ct["args"] and E.ap_operand(fa, ct["args"][0]) == xap]
            vok = False
            why = "no verify() call on the new lexicon"
            for (vb, vt) in vcalls:
                carg = E.ap_operand(fa, vt["args"][1]) if len(vt["args"]) > 1 else None
                if carg != conn_ap:
                    why = "verify() is not given the dictionary's own connector"
                    continue
                sw = vt.get("t")
                swt = fa.term(sw) if sw is not None else None
                # the switch may be in the target block itself
                if swt is None or swt["k"] != "switch":
                    why = "the result of verify() is not branched on"
                    continue
                o = fa.origin(swt["op"])
                neg = False
                if o[0] == "rv" and o[1]["k"] == "unop" and o[1]["op"] == "Not":
                    o = fa.origin(o[1]["a"])
                    neg = True
                if not (o[0] == "call" and o[1] == vb):
                    why = "the branch after verify() does not test its result"
                    continue
                f_t, t_t = bool_switch_targets(swt)
                bad = t_t if neg else f_t
                from flow import reach_const as _rc
                r = _rc(fa, bad)
                if (r & ok_b) or db in r:
                    why = "the failing outcome of verify() still reaches the store / Ok"
                    continue
                if not fa.dominates(vb, db) and db in _rc(fa, 0, avoid={vb}):
                    why = "the store is not dominated by verify()"
                    continue
                # The order of verify() and the translation is free: the mapper is a validated
                # permutation of 0..n with n = the connector's id counts (ConnIdMapper::parse,
                # rule MAPLEN), so a verified lexicon stays in range when translated. (An earlier
                # version of this rule insisted on translate-then-verify, the order of the
                # pinned tree; that order indexes the mapping table with unverified ids - defect
                # 19, found by VERIFYMAP under C10 - and the insistence was a false alarm on
                # the repaired tree.)
                vok = True
            ctx.ob("MAPKEEP", "%s|verified-before-install" % P_RESET, vok, fa.loc(b),
                   "the (translated) user lexicon is verified against the connector before it "
                   "is installed; failure returns Err" if vok else
                   "user lexicon installed without effective id-range verification (%s): an "
                   "out-of-range connection id would be looked up later" % why)
    ctx.floor("MAPKEEP", "Some(..) stores of the user lexicon", n_some, 1)
    # (iii) reset means reset: every successful return has (re)assigned the field, and when the
    # reader argument is `None` what is assigned is `None` - an early `return Ok(self)` on the
    # None arm keeps the previous user lexicon as candidates
    store_blocks = {b for (b, i, s) in stores}
    ok = bool(ok_b) and all(must_pass(fa, o, store_blocks) for o in ok_b)
    ctx.ob("MAPKEEP", "%s|every-ok-exit-assigns-user-lexicon" % P_RESET, ok, fn_loc(crate, P_RESET),
           "every successful return of reset_user_lexicon_from_reader has assigned data.user_lexicon"
           if ok else
           "reset_user_lexicon_from_reader can return Ok without assigning data.user_lexicon: the "
           "previous user lexicon stays installed (a `None` argument no longer clears it)")
    from mir import FnA
    sws = switch_on_discriminant_of(E, fa, AP(("arg", 2)))
    if not sws:
        raise EngineError("MAPKEEP: the Option<reader> argument of %s is not branched on" % P_RESET)
    okn = True
    for (sb, some_t, none_ts) in sws:
        fa_none = FnA(fa.fn, removed={(sb, some_t)})
        from flow import reach_const as _rc1
        live = _rc1(fa_none, 0)
        for (b, i, s0) in stores:
            if b not in live:
                continue
            rv = s0["rv"]
            pl = op_place(rv["op"]) if rv["k"] == "use" else None
            # the values that can be stored when the reader is None: definitions on blocks that
            # are still reachable with the Some edge removed
            defs = [d_ for d_ in (value_defs(fa, pl["l"]) if pl is not None else []) if d_[0] in live]
            if not defs or not all(kind == "assign" and payload["k"] == "agg" and
                                   payload.get("variant") == "None" for (db, kind, payload) in defs):
                okn = False
        oks_live = [o for o in ok_b if o in live]
        if not oks_live or not all(must_pass(fa_none, o, store_blocks) for o in oks_live):
            okn = False
    ctx.ob("MAPKEEP", "%s|none-argument-stores-none" % P_RESET, okn, fn_loc(crate, P_RESET),
           "with a `None` reader the only value assigned to data.user_lexicon is `None`, on every "
           "path to Ok" if okn else
           "with a `None` reader argument reset_user_lexicon_from_reader does not store `None` "
           "into data.user_lexicon on every path: the user lexicon is not cleared")
    # (iv) replace, not merge: no read of the previous user lexicon
    s = E.summary(P_RESET)
    reads = [e for e in s.may if e.kind == "read" and e.ap.startswith(ul_ap)]
    ctx.ob("MAPKEEP", "%s|replaces" % P_RESET, not reads, fn_loc(crate, P_RESET),
           "the new user lexicon is built without reading the previous one (replace, not merge)"
           if not reads else "reset_user_lexicon_from_reader reads the previous user lexicon (%s)"
           % reads[0].site[1])
    # (v) who may write the field
    writers = set()
    for p, f in crate.fns.items():
        if not f.body or f.krate != "vibrato":
            continue
        for bb in f.blocks:
            for st in bb["stmts"]:
                if "lhs" not in st:
                    continue
                for e in st["lhs"]["p"]:
                    if e != "*" and e.get("n") == "user_lexicon" and e.get("o") == INNER:
                        writers.add(p)
                rv = st["rv"]
                if rv["k"] == "agg" and rv.get("adt") == INNER:
                    writers.add(p)
    allowed = {P_RESET, "vibrato::dictionary::builder::SystemDictionaryBuilder::build"}
    for w in sorted(writers):
        f = crate.fns[w]
        ok = w in allowed or bool(f.j.get("derive"))
        ctx.ob("MAPKEEP", "writer|user_lexicon|%s" % w, ok, fn_loc(crate, w),
               "`user_lexicon` is written by %s (%s)" % (w, "allowed writer" if ok else
               "not one of the verified installation points: a lexicon could be installed "
               "without translation/verification"))
    ctx.floor("MAPKEEP", "writers of user_lexicon", len(writers), 3)


def connector_fields(ctx, E, crate):
    with open(os.path.join(VERIF, "spec", "mapfields.json")) as fh:
        spec = json.load(fh)
    n = 0
    for adt, d in sorted(spec["types"].items()):
        fields = crate.fields(adt)
        classified = set(d["permuted"]) | set(d["invariant"]) | set(d.get("delegated", []))
        for f in fields:
            ctx.ob("MAPFIELDS", "%s|classified|%s" % (adt, f), f in classified,
                   "%s:%s" % (crate.adt(adt)["sp"]["file"], crate.adt(adt)["sp"]["line"]),
                   "field `%s` of %s is classified in spec/mapfields.json" % (f, adt)
                   if f in classified else
                   "field `%s` of %s is new/unclassified: does it carry connection ids that "
                   "map_connection_ids must permute?" % (f, adt))
        mp = [p for p, f in crate.fns.items()
              if f.name == MAPFN and f.j.get("impl_self_adt") == adt and f.body]
        if len(mp) != 1:
            raise EngineError("MAPFIELDS: map_connection_ids of %s not found" % adt)
        s = E.summary(mp[0])
        killed = {repr(a) for a in s.must_kill}
        written = {}
        for e in s.may:
            if e.kind in ("kill", "write", "grow") and e.ap.root == ("arg", 1) and e.ap.proj:
                written.setdefault(e.ap.proj[0], set()).add(e.kind)
        for f in d["permuted"]:
            n += 1
            ok = ("arg1.%s" % f) in killed or (d.get("elementwise") and f in written)
            ctx.ob("MAPFIELDS", "%s|permuted|%s" % (adt, f), ok, fn_loc(crate, mp[0]),
                   "id-indexed field `%s` is rebuilt by %s::map_connection_ids on every path" % (f, adt.split("::")[-1])
                   if ok else
                   "id-indexed field `%s` of %s is not rebuilt by map_connection_ids: costs "
                   "would be looked up with new ids in the old layout" % (f, adt))
        for f in d.get("delegated", []):
            n += 1
            fa = E.fa(mp[0])
            calls = [b for b, t in calls_named(fa, MAPFN)
                     if t["args"] and E.ap_operand(fa, t["args"][0]) == AP(("arg", 1), (f,))]
            rets = fa.return_blocks()
            ok = bool(calls) and all(must_pass(fa, r, set(calls)) for r in rets)
            ctx.ob("MAPFIELDS", "%s|delegated|%s" % (adt, f), ok, fn_loc(crate, mp[0]),
                   "nested component `%s` is remapped through its own map_connection_ids" % f
                   if ok else "nested component `%s` of %s is not remapped" % (f, adt))
        for f in d["invariant"]:
            ok = f not in written
            ctx.ob("MAPFIELDS", "%s|invariant|%s" % (adt, f), ok, fn_loc(crate, mp[0]),
                   "field `%s` (%s) is left unchanged by the remapping" % (f, d["invariant"][f])
                   if ok else "field `%s` declared id-independent is modified by "
                   "map_connection_ids (%s)" % (f, sorted(written[f])))
    ctx.floor("MAPFIELDS", "permuted/delegated fields", n, 10)


def maprewrite(ctx, E, crate):
    """MAPREWRITE: inside a map_connection_ids method, a loop over `&mut` elements of an
    id-carrying table that rewrites the element on one path rewrites it on every path of the
    body. (An element that keeps its old number while the table it points into is permuted
    selects another row afterwards; with all-distinct rows every element takes the rewriting
    path, so tests with distinct rows cannot tell.)"""
    n = 0
    for p, f in sorted(crate.fns.items()):
        if not f.body or not strip_generics(p).endswith("::map_connection_ids") or f.krate != "vibrato":
            continue
        fa = E.fa(p)
        k = 0
        for nb, nt in fa.calls():
            if not any(strip_generics(x).endswith("::next") for x in callee_paths(nt)):
                continue
            sw = nt.get("t")
            st = fa.term(sw) if sw is not None else None
            if st is None or st["k"] != "switch":
                continue
            some_t = [tg for v, tg in zip(st["vals"], st["targets"]) if v == 1]
            if not some_t:
                continue
            some_t = some_t[0]
            # the element reference: `x = move (_n as Some).0` with a &mut type
            elems = set()
            for s in fa.blocks[some_t]["stmts"]:
                if "rv" in s and s["rv"]["k"] == "use" and not s["lhs"]["p"]:
                    pl = op_place(s["rv"]["op"])
                    # the item itself, or a member of a zipped item `(l, r)`
                    if pl and pl["l"] == nt["dest"]["l"] and pl["p"] and \
                            fa.fn.locals[s["lhs"]["l"]]["ty"].startswith("&mut "):
                        elems.add(s["lhs"]["l"])
            if not elems:
                continue
            # the table is walked from end to end: no adaptor that can end the walk early or
            # skip elements sits between the table and the loop (`zip` stops with the shorter
            # partner)
            chain_, cur_ = [], nt["args"][0]
            for _ in range(10):
                o_ = fa.origin(cur_)
                if o_[0] != "call":
                    break
                chain_.append(sorted({strip_generics(x).rsplit("::", 1)[-1] for x in callee_paths(o_[2])})[0])
                if not o_[2]["args"]:
                    break
                cur_ = o_[2]["args"][0]
            partial = [c for c in chain_ if c in ("zip", "take", "skip", "step_by", "take_while", "skip_while",
                                                  "filter", "filter_map", "map_while")]
            body = fa.reachable(some_t, avoid={nb})
            # reborrows / copies of the element reference
            changed = True
            while changed:
                changed = False
                for b in body:
                    for s in fa.blocks[b]["stmts"]:
                        if "rv" not in s or s["lhs"]["p"] or s["lhs"]["l"] in elems:
                            continue
                        rv = s["rv"]
                        src = op_place(rv["op"]) if rv["k"] == "use" else rv["place"] if rv["k"] == "ref" else None
                        if src and src["l"] in elems and all(e == "*" for e in src["p"]) and \
                                fa.fn.locals[s["lhs"]["l"]]["ty"].startswith("&mut "):
                            elems.add(s["lhs"]["l"])
                            changed = True
            wblocks = set()
            for b in body:
                for s in fa.blocks[b]["stmts"]:
                    if "lhs" in s and s["lhs"]["l"] in elems and s["lhs"]["p"] and s["lhs"]["p"][0] == "*":
                        wblocks.add(b)
            if not wblocks:
                continue
            n += 1
            k += 1
            # can the loop header be reached again from the Some arm without a write?
            skip = nb in fa.reachable(some_t, avoid=wblocks) if some_t not in wblocks else False
            names = fa.fn.local_names()
            label = (f.j.get("impl_self_adt") or p.rsplit("::", 1)[0]).split("::")[-1] + "::map_connection_ids"
            en = sorted(names.get(e, "_%d" % e) for e in elems)[0]
            ctx.ob("MAPREWRITE", "%s|loop|%d|whole-table" % (p, k - 1), not partial, fa.loc(nb),
                   "%s: the rewritten table is walked from end to end (%s)" % (label, " <- ".join(chain_) or "direct")
                   if not partial else
                   "%s: the loop that rewrites `*%s` goes through %s: when the other sequence is "
                   "shorter (different numbers of left and right ids) the tail of the table keeps its "
                   "old numbers" % (label, en, ", ".join(partial)))
            ctx.ob("MAPREWRITE", "%s|loop|%d" % (p, k - 1), not skip, fa.loc(nb),
                   "%s: every path through the loop body rewrites the element `*%s`"
                   % (label, en)
                   if not skip else
                   "%s: the loop rewrites `*%s` on some paths but leaves it unchanged on another: "
                   "ids that share a row keep their old number while the table they index is "
                   "renumbered" % (label, en))
    ctx.floor("MAPREWRITE", "element-rewriting loops in map_connection_ids methods", n, 2)
    # RENUMBER: a counter that hands out the new row numbers (`*map = next; next += 1`) advances
    # only on the path that has just assigned its value to a table slot - one new number per
    # *new* row, not per element
    m = 0
    for p, f in sorted(crate.fns.items()):
        if not f.body or not strip_generics(p).endswith("::map_connection_ids") or f.krate != "vibrato":
            continue
        fa = E.fa(p)
        for c, ds in sorted(fa.defs().items()):
            ds = [d for d in ds if d[2] == "assign"]
            if len(ds) < 2:
                continue
            inits = [d for d in ds if d[3]["k"] == "use" and (op_const(d[3]["op"]) or {}).get("int") == 0]
            incs = []
            for d in ds:
                rv = d[3]
                if rv["k"] != "use":
                    continue
                o = fa.origin(rv["op"])
                # `c = (c + 1).0` after the overflow assert
                if o[0] == "place":
                    plx = op_place(rv["op"])
                    dx = fa.single_def(plx["l"]) if plx is not None else None
                    if dx is not None and dx[2] == "assign":
                        o = ("rv", dx[3])
                if o[0] == "rv" and o[1]["k"] == "binop" and o[1]["op"].startswith("Add"):
                    a, b_ = o[1]["a"], o[1]["b"]
                    pa = op_place(a)
                    if pa is not None and pa["l"] == c and (op_const(b_) or {}).get("int") == 1:
                        incs.append(d)
            if not inits or not incs or len(inits) + len(incs) != len(ds):
                continue
            # stores of the counter through a reference (into a table slot)
            stores = set()
            for b, i, s0 in fa.stmts():
                if "lhs" in s0 and s0["lhs"]["p"] and s0["lhs"]["p"][0] == "*" and s0["rv"]["k"] == "use":
                    pl = op_place(s0["rv"]["op"])
                    for _ in range(4):
                        if pl is None or pl["p"]:
                            break
                        if pl["l"] == c:
                            stores.add(b)
                            break
                        dx = fa.single_def(pl["l"])
                        if dx is None or dx[2] != "assign" or dx[3]["k"] != "use":
                            break
                        pl = op_place(dx[3]["op"])
            if not stores:
                continue
            for d in incs:
                ib = d[0]
                # nearest loop head: a next() call block that dominates the increment
                heads = [nb for nb, nt in fa.calls()
                         if any(strip_generics(x).endswith("::next") for x in callee_paths(nt)) and fa.dominates(nb, ib)]
                if not heads:
                    continue
                h = max(heads, key=lambda x: len(fa.dominators().get(x, ())))
                hs = fa.term(h).get("t")
                m += 1
                bad = ib in fa.reachable(hs, avoid=stores | {h}) and ib not in stores
                names = fa.fn.local_names()
                ctx.ob("MAPREWRITE", "%s|renumber|%d" % (p, m), not bad, fa.loc(ib),
                       "the row counter `%s` advances only after its value was assigned to a table slot"
                       % names.get(c, "_%d" % c) if not bad else
                       "the row counter `%s` of %s advances on a path that did not assign it to a slot: "
                       "elements that share a row skip numbers, and later rows are numbered past the "
                       "size of the matrix part" % (names.get(c, "_%d" % c), "::".join(p.split("::")[-2:])))
    ctx.floor("MAPREWRITE", "row counters in map_connection_ids methods", m, 2)


def run(ctx):
    crate = ctx.facts("A").lib
    E = Effects(crate)
    mapparse(ctx)
    maprewrite(ctx, E, crate)
    fa, ok_b, err_b, map_calls, stores = mapall(ctx, E, crate)
    maplen(ctx, E, crate, fa, ok_b, map_calls)
    mapcompose(ctx, E, crate, fa, ok_b, stores)
    mapkeep_user(ctx, E, crate)
    connector_fields(ctx, E, crate)
    ctx.assume("rules decide that every id-carrying component is permuted with the one mapper, "
               "not that each permutation's index arithmetic is numerically right")


def run_compose(ctx):
    """C02 / C08 view: the stored mapper is the composition previous-then-new (a user lexicon
    loaded after several mappings gets ids of the current numbering)."""
    crate = ctx.facts("A").lib
    E = Effects(crate)
    fa, ok_b, err_b, map_calls, stores = mapall(ctx, E, crate)
    mapcompose(ctx, E, crate, fa, ok_b, stores)


def run_user(ctx):
    """C08 view: the user-lexicon installation path only."""
    crate = ctx.facts("A").lib
    E = Effects(crate)
    mapkeep_user(ctx, E, crate)


def mapparse(ctx):
    """MAPPARSE (C06): `Mappings that mention id 0, repeat or omit an id are rejected`.
    ConnIdMapper::parse builds the inverse table; structurally:
      (i)   an input id equal to the BOS/EOS id takes an edge that reaches Err only;
      (ii)  the slot of an id is written only after a comparison of the slot with the `unassigned`
            sentinel the table was filled with, whose `already assigned` edge reaches Err only
            (repeated ids);
      (iii) the slot is obtained by a checked lookup whose miss reaches Err only (ids outside
            1..=n; together with (ii) and the equal lengths this excludes omissions)."""
    from flow import result_exits, bool_switch_targets
    from sym import Sym, show
    crate = ctx.facts("A").lib
    E = Effects(crate)
    p = "vibrato::dictionary::mapper::ConnIdMapper::parse"
    f = crate.fns.get(p)
    if f is None or not f.body:
        raise EngineError("MAPPARSE: anchor lost: %s" % p)
    fa = E.fa(p)
    S = Sym(E, fa)
    loc = fn_loc(crate, p)
    ok_b, err_b, _ = result_exits(fa)

    def err_only(b):
        return not (fa.reachable(b) & ok_b)
    # sentinel of the table
    sentinel = None
    table_b = None
    for b, t in calls_named(fa, "from_elem"):
        k = op_const(t["args"][0])
        if k is not None and "int" in k:
            sentinel, table_b = k["int"], b
    if sentinel is None:
        raise EngineError("MAPPARSE: the inverse table (vec![sentinel; n]) was not found")
    zero = dup = miss = False
    for b in sorted(fa.live_blocks()):
        t = fa.term(b)
        if t["k"] != "switch":
            continue
        o = fa.origin(t["op"])
        if o[0] == "rv" and o[1]["k"] == "binop" and o[1]["op"] in ("Eq", "Ne"):
            ca, cb = op_const(o[1]["a"]), op_const(o[1]["b"])
            k = cb if cb is not None else ca
            other = o[1]["a"] if cb is not None else o[1]["b"]
            if k is None or "int" not in k:
                continue
            f_t, t_t = bool_switch_targets(t)
            eq_t = t_t if o[1]["op"] == "Eq" else f_t
            ne_t = f_t if o[1]["op"] == "Eq" else t_t
            oty = fa.fn.locals[op_place(other)["l"]]["ty"] if op_place(other) else ""
            if k["int"] == 0 and oty == "u16" and err_only(eq_t):
                zero = True
            if k["int"] == sentinel and err_only(ne_t):
                # the slot's value compared with the sentinel: `assigned` edge -> Err
                dup = True
        if o[0] == "rv" and o[1]["k"] == "discr":
            # Option from get_mut: None -> Err
            src = fa.origin({"c": o[1]["place"]})
            if src[0] == "call" and {strip_generics(x).rsplit("::", 1)[-1] for x in callee_paths(src[2])} & {"get_mut", "get"}:
                arms = dict(zip(t["vals"], t["targets"]))
                none_t = arms.get(0, t["otherwise"])
                if err_only(none_t):
                    miss = True
    if not miss:
        # the checked lookup turned into an error by a combinator: `get_mut(i).ok_or_else(..)?`
        for b, t in fa.calls():
            nm = {strip_generics(x).rsplit("::", 1)[-1] for x in callee_paths(t)}
            if not (nm & {"ok_or", "ok_or_else"}) or not t["args"]:
                continue
            src = fa.origin(t["args"][0])
            if src[0] != "call" or not ({strip_generics(x).rsplit("::", 1)[-1] for x in callee_paths(src[2])}
                                        & {"get_mut", "get"}):
                continue
            for ub, ut in fa.calls():
                if any("Try>::branch" in x or x.endswith("Try::branch") for x in callee_paths(ut)) and ut["args"]:
                    o2 = fa.origin(ut["args"][0])
                    if o2[0] == "call" and o2[1] == b:
                        miss = True
    ctx.ob("MAPPARSE", "%s|id-0-rejected" % p, zero, loc,
           "an input id equal to the BOS/EOS id 0 leads to Err" if zero else
           "ConnIdMapper::parse no longer rejects the reserved id 0: a mapping may move the BOS/EOS "
           "id")
    ctx.ob("MAPPARSE", "%s|repeated-id-rejected" % p, dup, loc,
           "a slot that is already assigned (not the sentinel %d) leads to Err" % sentinel if dup else
           "ConnIdMapper::parse writes a slot without testing that it is still unassigned: a "
           "repeated id overwrites the earlier one and another id is left unmapped (sentinel "
           "%d stays in the table and is later used as an index)" % sentinel)
    ctx.ob("MAPPARSE", "%s|out-of-range-id-rejected" % p, miss, loc,
           "the slot is looked up with a checked get whose miss leads to Err" if miss else
           "ConnIdMapper::parse no longer rejects ids outside 1..=n with an error")


def verifystrict(ctx):
    """VERIFYSTRICT (C10, C08, C06): Lexicon::verify and UnkHandler::verify reject exactly the ids
    that are not smaller than the connector's count of their side: every comparison between
    `num_left()/num_right()` and an id is, as a normalised linear inequality on the edge that
    returns false, `count - id <= 0`. (`count < id` accepts id == count, the first id outside the
    connector; the side pairing itself is KIND-CMP's business.)"""
    from flow import bool_switch_targets
    from sym import Sym, show
    from r_cand import _lin as _lin0
    crate = ctx.facts("A").lib
    E = Effects(crate)
    n = 0
    from flow import result_exits, reach_const
    import re as _re
    for p, f in sorted(crate.fns.items()):
        base_p = _re.sub(r"(::\{closure#\d+\})+$", "", strip_generics(p))
        is_verify = base_p.endswith("::verify")
        is_matrix = strip_generics(p).endswith("matrix_connector::MatrixConnector::from_reader")
        if not f.body or f.krate != "vibrato" or not (is_verify or is_matrix):
            continue
        fa = E.fa(p)
        S = Sym(E, fa)
        # counts captured by a closure (`let n = conn.num_left(); ids.all(|p| p.left_id < n)`) read as
        # what the enclosing function computed for them
        caps = {}
        par = f.j.get("closure_of")
        if par and par in crate.fns and crate.fns[par].body:
            pfa = E.fa(par)
            PS = Sym(E, pfa)
            for b0, i0, s0 in pfa.stmts():
                rv0 = s0.get("rv") or {}
                if rv0.get("k") == "agg" and rv0.get("agg") == "closure" and rv0.get("closure") == p:
                    caps = {k: show(PS.operand(o)) for k, o in enumerate(rv0["ops"])}

        def _lin(e, caps=caps):
            t_, c_ = _lin0(e)
            return _re.sub(r"arg1\.#(\d+)", lambda m: caps.get(int(m.group(1)), m.group(0)), t_), c_
        # a predicate written as a value (`id < count && ..` in a closure handed to all(), or the
        # last expression of a helper): the comparison's result is what is returned
        for vb, vi, vs in fa.stmts():
            rv = vs.get("rv")
            if not rv or rv["k"] != "binop" or rv["op"] not in ("Lt", "Le", "Gt", "Ge") or vs["lhs"]["p"]:
                continue
            # not consumed by a switch of its own (directly or through a plain copy)
            copies = {vs["lhs"]["l"]}
            for _ in range(3):
                for cb, ci, cs in fa.stmts():
                    if "lhs" in cs and not cs["lhs"]["p"] and cs["rv"]["k"] == "use":
                        sp = op_place(cs["rv"]["op"])
                        if sp is not None and not sp["p"] and sp["l"] in copies and \
                                len(fa.defs().get(cs["lhs"]["l"], [])) == 1:
                            copies.add(cs["lhs"]["l"])
            used_by_switch = False
            for x in fa.live_blocks():
                tx = fa.term(x)
                if tx["k"] == "switch":
                    sp = op_place(tx["op"])
                    if sp is not None and not sp["p"] and sp["l"] in copies:
                        used_by_switch = True
            if used_by_switch:
                continue
            e = ("binop", rv["op"], S.operand(rv["a"]), S.operand(rv["b"]))
            (lt, lc), (rt, rc) = _lin(e[2]), _lin(e[3])

            def is_cnt(txt):
                return "num_left(" in txt or "num_right(" in txt or (is_matrix and "parse_header" in txt)
            if is_cnt(lt) == is_cnt(rt):
                continue
            if is_matrix:
                # the parser's outcome is Ok/Err, not the value itself: the value `false` must not
                # reach a successful return (`(a < n && b < m).then_some(i).ok_or_else(..)?`)
                ok_b0, _e0, _ = result_exits(fa)
                if reach_const(fa, vb, env0={vs["lhs"]["l"]: 0}, after_stmt=vi) & ok_b0:
                    n += 1
                    ctx.ob("VERIFYSTRICT", "%s|value-cmp|rejects" % base_p, False, fa.loc(vb, vi),
                           "the matrix parser computes %s %s %s but the outcome `false` still reaches a "
                           "successful return: an id outside the header's counts is stored"
                           % (show(e[2]), rv["op"], show(e[3])))
                    continue
            cnt_left = is_cnt(lt)
            # the value `true` is the accepting outcome: out of range  <=>  NOT(expr)
            neg = {"Lt": "Ge", "Le": "Gt", "Gt": "Le", "Ge": "Lt"}[rv["op"]]
            if cnt_left:      # NOT(count OP id)  ->  count NEG id  ->  count - id NEG rc - lc
                kk = rc - lc if neg == "Le" else rc - lc - 1 if neg == "Lt" else None
            else:             # NOT(id OP count)  ->  id NEG count  ->  count - id NEG' lc - rc
                kk = lc - rc if neg == "Ge" else lc - rc - 1 if neg == "Gt" else None
            n += 1
            ok = kk == 0
            ctx.ob("VERIFYSTRICT", "%s|value-cmp|%s" % (base_p, "left" if "num_left(" in lt + rt else "right"),
                   ok, fa.loc(vb, vi),
                   "%s accepts an id exactly when count - id >= 1" % "::".join(base_p.split("::")[-2:]) if ok else
                   "%s treats an id as in range unless count - id <= %s (%s %s %s): the first id outside "
                   "the connector is accepted and indexes one past the tables during tokenization"
                   % ("::".join(base_p.split("::")[-2:]), kk, show(e[2]), rv["op"], show(e[3])))
        # blocks that make the function return false (verify) / construct the Err (matrix parser)
        false_blocks = set()
        if is_matrix:
            ok_b, err_b, _ = result_exits(fa)
            for b, t in fa.calls():
                if "invalid_format" in " ".join(callee_paths(t)) and not (fa.reachable(b) & ok_b):
                    false_blocks.add(b)
        # locals whose value is moved into the return place (after helper expansion the helper's
        # own return slot is one of them)
        retflow = {0}
        for _ in range(4):
            for b, i, s in fa.stmts():
                if "lhs" in s and not s["lhs"]["p"] and s["lhs"]["l"] in retflow and s["rv"]["k"] == "use":
                    sp_ = op_place(s["rv"]["op"])
                    if sp_ is not None and not sp_["p"]:
                        retflow.add(sp_["l"])
        for b, i, s in fa.stmts():
            if "lhs" in s and s["lhs"]["l"] in retflow and not s["lhs"]["p"] and s["rv"]["k"] == "use":
                k = op_const(s["rv"]["op"])
                if k is not None and k.get("int") == 0:
                    false_blocks.add(b)
        k_ = 0
        for b in sorted(fa.live_blocks()):
            t = fa.term(b)
            if t["k"] != "switch":
                continue
            e = S.operand(t["op"])
            if not (e[0] == "binop" and e[1] in ("Lt", "Le", "Gt", "Ge")):
                continue
            (lt, lc), (rt, rc) = _lin(e[2]), _lin(e[3])
            def is_count(txt):
                return "num_left(" in txt or "num_right(" in txt or (is_matrix and "parse_header" in txt)
            if is_count(lt) and not is_count(rt):
                cnt_left = True
            elif is_count(rt) and not is_count(lt):
                cnt_left = False
            else:
                continue
            f_t, t_t = bool_switch_targets(t)
            # the edge on which the id is NOT below the count (the count is the smaller side)
            small_count_on_true = (cnt_left and e[1] in ("Lt", "Le")) or (not cnt_left and e[1] in ("Gt", "Ge"))
            oor_t = t_t if small_count_on_true else f_t
            opn = e[1] if small_count_on_true else {"Lt": "Ge", "Le": "Gt", "Gt": "Le", "Ge": "Lt"}[e[1]]
            # on that edge:  L+lc OPN R+rc ; want  count - id <= 0
            if cnt_left:      # count + lc OP id + rc  ->  count - id OP rc - lc
                kk = rc - lc if opn == "Le" else rc - lc - 1 if opn == "Lt" else None
            else:             # id + lc OP count + rc  ->  count - id OP' lc - rc
                kk = lc - rc if opn == "Ge" else lc - rc - 1 if opn == "Gt" else None
            # ... and from that edge no accepting exit is reachable except through a rejection
            rest = reach_const(fa, oor_t, avoid=false_blocks) if oor_t not in false_blocks else set()
            if is_matrix:
                escapes = bool(rest & ok_b)
            else:
                escapes = any(fa.term(x)["k"] == "return" for x in rest)
            if escapes:
                n += 1
                ctx.ob("VERIFYSTRICT", "%s|cmp|%d|rejects" % (p, k_), False, fa.loc(b),
                       "%s: an id that is not below the connector's count (%s %s %s) can still be "
                       "accepted - the out-of-range outcome of this comparison reaches an accepting "
                       "return without passing a rejection (conditions joined with && instead of ||?)"
                       % ("::".join(p.split("::")[-2:]), show(e[2]), e[1], show(e[3])))
                k_ += 1
                continue
            n += 1
            ok = kk == 0
            ctx.ob("VERIFYSTRICT", "%s|cmp|%d" % (p, k_), ok, fa.loc(b),
                   "%s rejects an id when %s - id <= 0" % ("::".join(p.split("::")[-2:]),
                                                          "num_left/right") if ok else
                   "%s rejects an id only when count - id <= %s (comparison %s %s %s): the first id "
                   "outside the connector is accepted and indexes one past the tables during "
                   "tokenization" % ("::".join(p.split("::")[-2:]), kk, show(e[2]), e[1], show(e[3])))
            k_ += 1
    ctx.floor("VERIFYSTRICT", "id-range comparisons in verify() and the matrix parser", n, 6)
    # MATRIXLINES: every line after the header is looked at. A blank line is skipped (filter / if),
    # it does not end the table: an adaptor that truncates the line iterator leaves the rows behind
    # the first blank line at cost 0.
    from r_rewrite import _chain_to_source
    mp = [p for p in crate.fns if strip_generics(p).endswith("matrix_connector::MatrixConnector::from_reader")]
    m = 0
    for p in mp:
        fa = E.fa(p)
        for b, t in fa.calls():
            nm = {strip_generics(x).rsplit("::", 1)[-1] for x in callee_paths(t)}
            if "next" not in nm or not t["args"] or not any(b in fa.reachable(x) for x in fa.succs(b)):
                continue
            ch = _chain_to_source(fa, t["args"][0])
            if "lines" not in ch:
                continue
            m += 1
            cut = [c for c in ch if c in ("take_while", "map_while", "take", "skip", "skip_while", "step_by", "scan",
                                          "nth", "last", "rev", "peekable_take", "chunks", "zip")]
            ctx.ob("MATRIXLINES", "%s|all-lines" % p, not cut, fa.loc(b),
                   "every line of matrix.def after the header is read (%s)" % " <- ".join(ch) if not cut else
                   "the lines of matrix.def are read through %s: reading stops (or thins) before the end of "
                   "the file, and the entries that are not read keep cost 0" % ", ".join(cut))
    ctx.floor("MATRIXLINES", "line loops of the matrix parser", m, 1)

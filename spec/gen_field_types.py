#!/usr/bin/env python3
"""Regenerate spec/field_types.json: the integer-carrying fields (plain or inside Vec/Option) of
every vibrato type, with their integer type, as of the confirmed tree (rule FIELDWIDTH)."""
import json, os, re, sys
V = os.path.dirname(os.path.dirname(os.path.abspath(__file__)))
sys.path.insert(0, os.path.join(V, "rules"))
import facts
INT = r"\b(u8|u16|u32|u64|usize|i8|i16|i32|i64|isize)\b"
out = {}
for cfg in ("A", "B"):
    c = facts.load(cfg).lib
    for path, a in sorted(c.adts.items()):
        if not path.startswith("vibrato::"):
            continue
        for v in a["variants"]:
            for f in v["fields"]:
                m = re.findall(INT, f["ty"])
                if m and ("::" not in re.sub(r"std::(vec::Vec|option::Option)", "", f["ty"])):
                    out["%s.%s" % (path, f["name"])] = f["ty"]
json.dump({"_doc": "integer-carrying fields of the confirmed tree (rule FIELDWIDTH)", "fields": out},
          open(os.path.join(V, "spec", "field_types.json"), "w"), indent=1)
print(len(out), "fields")

#!/usr/bin/env python3
"""Regenerate spec/fn_baseline.json: every function path (workspace crates, configurations A, B, C)
of the tree the checks were confirmed on. rules/inline.py expands calls to functions that are
NOT in this list (helpers introduced by later edits) into their callers."""
import json, os, sys
V = os.path.dirname(os.path.dirname(os.path.abspath(__file__)))
sys.path.insert(0, os.path.join(V, "rules"))
os.environ["VERIF_NO_INLINE"] = "1"
import facts
import inline
paths = set()
direct = set()
callers = {}
vis = {}
import re
for cfg in ("A", "B", "C"):
    F = facts.load(cfg)
    for name, c in F.crates.items():
        for f in c.j["fns"]:
            if f.get("kind") in ("Fn", "AssocFn"):
                paths.add(f["path"])
            if f.get("kind") in ("Fn", "AssocFn"):
                vis[f["path"]] = f.get("vis")
            me = re.sub(r"(::\{closure#\d+\})+$", "", f["path"])
            for bb in (f.get("body") or {}).get("blocks", []):
                t = bb["term"]
                fn = ((t.get("func") or {}).get("k") or {}).get("fn") or {}
                r = (fn.get("resolved") or {}).get("path", "")
                if t.get("k") == "call":
                    for cp in {r, fn.get("path", "")}:
                        cp = inline._strip(cp) if cp else cp
                        if cp and cp != me:
                            callers.setdefault(cp, set()).add(me)
                if t.get("k") == "call" and fn.get("path", "").startswith("std::ops::Fn") and "{closure" in r:
                    direct.add(r)
json.dump({"_doc": "function paths of the confirmed tree (see rules/inline.py)", "functions": sorted(paths),
           "direct_closures": sorted(direct),
           "sole_caller": {p: sorted(c)[0] for p, c in sorted(callers.items())
                           if p in paths and len(c) == 1 and not p.startswith("<") and sorted(c)[0] in paths
                           and not sorted(c)[0].startswith("<") and vis.get(p) not in ("pub", "public")}},
          open(os.path.join(V, "spec", "fn_baseline.json"), "w"), indent=0)
print(len(paths), "functions")

#!/usr/bin/env python3
"""Generates spec/panic_table.json from the audit notes below. Run by hand after re-auditing;
the checks only read the JSON. Every entry = one potential panic / wrap site (exact key, no line
numbers) + the reason it cannot fire for any input + optionally a machine-checked guard."""
import json, os, re, sys
sys.path.insert(0, os.path.join(os.path.dirname(os.path.abspath(__file__)), "..", "rules"))

MAPLEN = {"kind": "rule", "rule": "MAPLEN"}
VERIFYMAP = {"kind": "rule", "rule": "VERIFYMAP"}
FTS = {"kind": "err_before",
       "fn": "vibrato::dictionary::connector::raw_connector::RawConnectorBuilder::from_readers",
       "local": "feat_template_size",
       "sink": {"callee": "RawConnectorBuilder::new", "arg": 2}}
CATE = {"kind": "bound", "fn": "vibrato::dictionary::character::CharProperty::from_reader",
        "callee": "CharInfo::new", "arg": 1, "lt": 18}
FEATLEN = {"kind": "rule", "rule": "FEATSPAN"}

# (function substring, key regex, reason, guard)
RULES = [
 ("FromU32>::from_u32", r"unwrap_unchecked", "u32 -> usize never fails on 32/64-bit targets (compile_error! otherwise in lib.rs)", None),
 # ---- connectors' map_connection_ids: reached only through Dictionary::map_connection_ids_from_iter
 ("::map_connection_ids", r"assert_failed", "assert_eq!(mapper.num_*, self.num_*): Dictionary::map_connection_ids_from_iter compares both lengths first and returns Err on mismatch; the dual connector's inner matrix mapper is built with exactly matrix_connector.num_left/right entries", MAPLEN),
 ("DualConnector as", r"unwrap\(try_from\(next", "loop index < num_right/num_left = mapper length, and ConnIdMapper::parse rejects more than u16::MAX ids (`u16::try_from(new_id)?`)", MAPLEN),
 ("RawConnector as", r"unwrap\(try_from\(next", "loop index < num_right/num_left = mapper length, and ConnIdMapper::parse rejects more than u16::MAX ids", MAPLEN),
 ("DualConnector as", r"Index<I>>::index\(arg1\.(right|left)_(feat_ids|conn_id_map),next", "index is the loop variable of 0..num_right()/num_left() = len of the conn_id_map; feat_ids has the same length (one U31x8 per id, built together in from_readers)", None),
 ("DualConnector as", r"index_mut\(from_elem\((default\(\)|0)\),from\((right|left)\(arg2\)\)\)", "new_id = mapper.right/left(id) is a value of a permutation of 0..len (ConnIdMapper::parse) and the vector was allocated with the same length", MAPLEN),
 ("DualConnector as", r"index_mut\(from_elem\(65535\),from\(next", "values of *_conn_id_map are row numbers < matrix_connector.num_left/right by construction (create_matrix_connector)", None),
 ("DualConnector as", r"Add\(var:u16,1\)", "counts distinct matrix rows, at most the number of ids (< 65536)", None),
 ("MatrixConnector as", r"cast\|usize->u16", "loop variable of 0..num_right/num_left, both parsed from a u16 header (or <= 65536 rows in the dual connector)", None),
 ("MatrixConnector as", r"index\(arg1\.data,index\(arg1\)\)|index_mut\(from_elem\(0\),index\(arg1\)\)", "index() of ids < num_right/num_left (loop bound / permutation values) is < num_right*num_left = data.len()", MAPLEN),
 ("RawConnector as", r"assert:Overflow", "id * row width with id <= number of rows: the product is an offset into an allocated vector", None),
 ("RawConnector as", r"index(_mut)?\((from_elem\(default\(\)\)|arg1\.(right|left)_feat_ids),Range\(|copy_from_slice", "row ranges id*w..(id+1)*w with id < num (loop bound / permutation value) lie inside vectors of num*w elements; source and destination rows have equal width", MAPLEN),
 ("RawConnector as vibrato::dictionary::connector::Connector>::num_", r"DivisionByZero", "feat_template_size is non-zero for every connector the builder returns (empty models are rejected)", FTS),
 ("U31x8 as bincode::Decode", r"assert_failed", "debug_assert_eq!(size_of_val([U31; 8]), 32): compile-time fact of the type", None),
 # ---- char.def
 ("cate_id::{closure#1}", r"unwrap\(try_from\(arg2\)\)", "the argument is a position in `categories`, which holds at most 18 entries", None),
 ("encode_cate_info", r"Shl\(1,base_id", "base_id is a category id; from_reader rejects ids >= CATE_IDSET_BITS (18) before CharInfo::new, so the shift amount is < 32 and the bit stays inside the 18-bit id set", CATE),
 ("CharProperty::from_reader", r"unwrap\(try_from\(len\(new\(\)\)\)\)", "the map holds at most 19 entries (ids >= 18 are rejected right after insertion)", None),
 ("CharProperty::from_reader", r"index_mut\(from_elem\(new\(\)\),from_u32\(next", "values of cate_map are dense ids 0..cate_map.len() (each new name gets id = current len) and categories has cate_map.len() slots", None),
 ("parse_char_category", r"panicking::panic", "assert! on the caller's own dispatch: from_reader calls this only for non-empty lines not starting with 0x", None),
 ("parse_char_range", r"panicking::panic", "assert! on the caller's own dispatch: from_reader calls this only for lines starting with 0x", None),
 # ---- dual connector construction
 ("create_matrix_connector", r"assert:Overflow", "row counts are at most 65536 each (u16::try_from(conn_id)? in the closure above), so products and sums stay below 2^33", None),
 ("create_matrix_connector", r"index_mut\(from_elem\(0\),Add\(Mul", "lid < left rows, rid < right rows, so lid*right_rows+rid < matrix.len()", None),
 ("create_raw_connector", r"unwrap", "i enumerates scorer_builder.trie, whose length is max right-feature id + 1 <= number of interned strings (< 2^31, see parse_cost)", None),
 ("remove_feature_templates_greedy", r"Mul\(", "products of numbers of bigram lines / distinct rows held in memory; only used as a heuristic size (a wrap needs > 2^32 lines on both sides)", None),
 ("remove_feature_templates_greedy::{closure#0}", r"Add\(or_insert", "occurrence counter bounded by the number of rows", None),
 # ---- matrix.def
 ("MatrixConnector::from_reader", r"Mul\(branch\(_\)\.#0,branch\(_\)\.#1\)", "num_right * num_left, both from u16 header fields (parse_header): product < 2^32", None),
 ("MatrixConnector::from_reader", r"Mul\(branch\(_\)\.#1,branch\(_\)\.#0\)|Add\(Mul", "guarded by `num_right <= right_id || num_left <= left_id => Err` just above: left_id*num_right+right_id < num_left*num_right", None),
 ("MatrixConnector::from_reader", r"index_mut\(from_elem\(0\),Add", "same guard: the cell index is < num_right*num_left = data.len()", None),
 ("MatrixConnector::index", r"panicking::panic", "debug_assert! restating the caller's contract (ids < num_right/num_left, ensured by verify() for lexicon ids and by loop bounds in map_connection_ids)", None),
 ("MatrixConnector::index", r"assert:Overflow", "u16 id * num_right (<= 65536) + u16 id", None),
 # ---- raw connector construction
 ("RawConnector::from_readers", r"Add\(Div\(Sub|Mul\(Add\(Div", "rounding feat_template_size (max number of features on a line) up to a multiple of 8", None),
 ("RawConnector::from_readers", r"Mul\(Add\(len\(_\.(right|left)_feat_ids_tmp\),1\)", "(number of lines + 1) * widest line: a wrap needs > 2^32 lines and > 2^31 features on one line, i.e. more than 16 GiB of parsed input already held in memory", None),
 ("RawConnector::from_readers", r"index_mut\(from_elem\(2147483647\),Range(To|From)\(", "ranges ..w and w.. of a vector of (n+1)*w elements", None),
 ("RawConnector::from_readers", r"chunks_mut", "chunk size feat_template_size is non-zero: RawConnectorBuilder::from_readers returns Err for an empty model and rounding up keeps it non-zero", FTS),
 ("RawConnector::from_readers", r"index_mut\(next\(_\)\.#0,RangeTo\(len\(|copy_from_slice", "trg is one row of width feat_template_size >= src.len() (the width is the maximum line length, rounded up)", None),
 ("parse_cost", r"unwrap", "ids are map sizes: 2^31 distinct feature strings would need more than 48 GiB of keys", None),
 ("Scorer::retrieve_cost", r"index\(arg1\.costs", "pos < checks.len() was just established by checks.get(pos), and costs has the same length (ScorerBuilder::build resizes both together; Scorer::decode rejects different lengths)", None),
 ("ScorerBuilder::build", r"index_mut\(from_elem\(0\),next", "key1 enumerates self.trie and bases has trie.len() slots", None),
 ("ScorerBuilder::build", r"Add\(var:u32,1\)", "search for a free base; terminates below checks.len() + number of keys (u32 arithmetic on values < 2^31 + table size)", None),
 ("ScorerBuilder::build", r"Add\(from_u32", "pos is a u32 widened to usize", None),
 ("ScorerBuilder::build", r"unwrap\(try_from\(next", "key1 < trie.len() <= number of interned right features < 2^31", None),
 ("ScorerBuilder::build", r"index_mut\(new\(\),from_u32", "both vectors were resized to pos+1 just above when pos was beyond the end", None),
 ("ScorerBuilder::insert", r"Add\(from_u32|index_mut\(arg1\.trie", "trie is resized to key1+1 just above; key1 is a u32 feature id", None),
 ("to_simd_vec", r"index_mut\(_,RangeTo\(len\(|copy_from_slice", "xs is a chunk of at most SIMD_SIZE = 8 elements (chunks(8)), array has 8", None),
 ("to_simd_vec", r"assert_failed", "debug_assert_eq!(size_of_val([U31; 8]), 32): compile-time fact", None),
 # ---- lexicon CSV
 ("Lexicon::parse_csv", r"assert:Overflow\|Add\(", "running totals of bytes/fields consumed from the input slice: bounded by its length", None),
 ("Lexicon::parse_csv", r"array::index\(_,RangeTo\(read_field\(_\)\.#2\)\)", "nout <= output.len() is csv-core's read_field contract", None),
 ("Lexicon::parse_csv", r"index::index\(arg1,RangeFrom\(read_field\(_\)\.#1\)\)", "nin <= bytes.len() is csv-core's read_field contract", None),
 ("Lexicon::parse_csv", r"index::index\(var:&\[u8\],RangeTo\(", "record_end_pos / features_len sum the nin of the fields read since record_bytes / features_bytes were set, so the ranges stay inside those slices; the feature length only counts bytes consumed after the feature base was set (checked name-free by the FEATSPAN abstract interpretation)", FEATLEN),
 ("WordParams::get", r"index\(arg1\.params,arg2\)", "called from Lexicon::verify with the loop variable of 0..params.len() (tokenization-path callers are out of scope here)", None),
 ("ConnIdMapper::left", r"index\(arg1\.left", "ids handed to the mapper are < num_left: lexicon/unknown ids are verified in build() and, for a user lexicon, by verify() BEFORE map_connection_ids in reset_user_lexicon_from_reader (checked: VERIFYMAP); loop indices in the connectors; and the mapper's length equals the connector's (MAPLEN)", VERIFYMAP),
 ("ConnIdMapper::right", r"index\(arg1\.right", "as for left()", VERIFYMAP),
 ("ConnIdMapper::parse", r"index_mut\(from_elem\(65535\),from\(0\)\)", "new_ids has old_ids.len() >= 1 elements (old_ids starts with the BOS/EOS id)", None),
 ("ConnIdMapper::parse", r"assert_failed", "debug_assert_ne!(old_id, 0): id 0 was rejected with Err while old_ids was filled", None),
 ("UnkHandler::from_reader", r"unwrap\(try_from\(branch", "category ids are < 18", None),
 ("UnkHandler::from_reader", r"index_mut\(from_elem\(new\(\)\)", "cate_id is a position in char_prop's category list and map has num_categories() slots", None),
 ("utils::parse_csv_row", r"array::index\(_", "nout <= output.len() is csv-core's contract", None),
 ("utils::parse_csv_row", r"index::index\(var", "nin <= bytes.len() is csv-core's contract", None),
 ("utils::parse_csv_row", r"unwrap\(from_utf8", "the input is a &str and csv unquoting only removes ASCII quote bytes at character boundaries; fields are converted whole (accumulated across OutputFull)", None),
]

VERIFYIDS = {"kind": "rule", "rule": "VERIFYMAP"}
OFFS = {"kind": "sized_by", "fn": "vibrato::dictionary::unknown::UnkHandler::from_reader",
        "local": "offsets", "count": "num_categories", "plus": 1,
        "sink": {"adt": "UnkHandler", "field": "offsets"}}
CATE_OFFS = {"kind": "all", "of": [CATE, OFFS]}
ENDSUM = {"kind": "arg_is_sum", "fn": "vibrato::trainer::Trainer::build_lattice",
          "callee": "UnkHandler::compatible_unk_index", "arg": 3, "of": 2}
UNKLEN = {"kind": "len_le", "fn": "vibrato::dictionary::unknown::UnkHandler::from_reader",
          "local": "entries", "le": 65536, "sink": {"adt": "UnkHandler", "field": "entries"}}
LATTICE = {"kind": "rule", "rule": "LATTICE"}
UNKFALL = {"kind": "rule", "rule": "UNKFALL"}

# Audit of the tokenization path (functions below Worker / Token that the builders do not reach).
# (function substring, key regex, reason, guard)
TOK_RULES = [
 # ---- connectors: ids are verified against the connector when a dictionary is built / a user lexicon installed
 ("DualConnector as", r"index\(arg1\.(right|left)_(conn_id_map|feat_ids),from\(arg[23]\)\)", "right/left ids of every lexicon, user-lexicon and unk.def entry are < num_right/num_left (verify() in build() and reset_user_lexicon_from_reader; id 0 for BOS/EOS), and both tables have one element per id", VERIFYIDS),
 ("MatrixConnector as", r"index\(arg1\.data,index\(arg1\)\)", "index() = left_id * num_right + right_id with verified ids < num_left/num_right is < data.len() = num_left * num_right (checked by the matrix parser)", VERIFYIDS),
 ("RawConnector::right_feature_ids", r".*", "row id*w..(id+1)*w of a table with num_right*w vectors, id verified < num_right (usize arithmetic on a value below an allocated length)", VERIFYIDS),
 ("RawConnector::left_feature_ids", r".*", "row id*w..(id+1)*w of a table with num_left*w vectors, id verified < num_left", VERIFYIDS),
 # ---- dictionary accessors
 ("Dictionary::word_", r"unwrap\(user_lexicon", "LexType::User word indices are produced only by the user lexicon's own common_prefix_iterator (DISPATCH rule), which exists only when a user lexicon is installed", None),
 ("Lexicon::word_", r"assert_failed", "debug_assert_eq!(word_idx.lex_type, self.lex_type): components are looked up by their own tag (DISPATCH rule)", None),
 ("UnkHandler::word_", r"assert_failed", "debug_assert_eq!(lex_type, Unknown): dispatch by tag (DISPATCH rule)", None),
 ("UnkHandler::word_", r"index\(arg1\.entries", "word_id of an unknown word is the loop variable of offsets[c]..offsets[c+1] <= entries.len() in scan_entries, narrowed to u16 without loss (unk.def has at most 65536 entries)", UNKLEN),
 ("WordParams::get", r"index\(arg1\.params,arg2\)", "word ids come from the trie postings, which list indices of the entries the parameters were built from (same Vec order in Lexicon::from_entries, PARALLEL rule); on the confirmed tree this accessor is also reached by the builders (Lexicon::verify) and is then audited there", None),
 ("WordFeatures::get", r"index", "word ids come from the trie postings, which list indices of the entries the features were built from (same Vec order in Lexicon::from_entries)", None),
 ("Postings::ids", r".*", "offsets stored in the trie are the offsets PostingsBuilder::push returned; data[i] is the length it wrote in front of the ids, so i+1+len <= data.len()", None),
 ("CharInfo::length", r"cast", "the field occupies the top bits: only 32-28 = 4... bits remain after the shift", None),
 ("char_info::{closure", r"index\(arg1(\.#0)?\.chr2inf,0\)", "chr2inf has 0x10000 elements (CharProperty::from_reader resizes it before filling)", None),
 # ---- unknown words
 ("gen_unk_words", r"assert_failed", "debug_assert_ne!(groupable, 0): compute_groupable fills 1 and only increments", None),
 ("gen_unk_words", r"Sub\(groupable", "groupable >= 1 (filled with 1, only incremented)", None),
 ("gen_unk_words", r"Add\(arg3,", "start + run/prefix length <= sentence length <= isize::MAX (run lengths never cross the end of the sentence)", None),
 ("scan_entries", r"index\(arg1\.offsets", "base_id < number of categories: both the CharInfo table and offsets (num_categories + 1 elements: one per category of the CharProperty plus the end) are built from the same CharProperty in SystemDictionaryBuilder::build, and a category id is bounded below 18 before it is packed into a CharInfo (a 19th category would spill into the base-id bits)", CATE_OFFS),
 ("scan_entries", r"Add\(from_u32\(base_id", "category id + 1 <= 18", None),
 ("scan_entries", r"index\(arg1\.entries,next", "loop over offsets[c]..offsets[c+1], prefix sums of the per-category lists, last = entries.len()", None),
 ("scan_entries", r"cast\|usize->u16", "word_id < entries.len() <= 65536", UNKLEN),
 # ---- sentence
 ("Sentence::byte_position", r"index", "positions handed out are node boundaries 0..=len_char; c2b has len_char+1 elements", None),
 ("Sentence::char_info", r"index", "callers pass positions < len_char (loop guard start_word < len_char in build_lattice_inner; has_previous_node(start_node) with start_node <= start_word)", LATTICE),
 ("Sentence::groupable", r"index", "as for char_info", LATTICE),
 ("Sentence::compute_", r"panic\(|assert_failed", "debug assertions on a non-empty sentence: Worker::tokenize returns before compile() for an empty sentence", None),
 ("Sentence::compute_groupable", r"unwrap\(last", "cinfos is non-empty (one element per character, sentence non-empty)", None),
 ("Sentence::compute_groupable", r".*", "i runs over (1..len).rev(): i-1 and i are < len = groupable.len() = cinfos.len(); run lengths <= len", None),
 # ---- tokens
 ("token::Token", r"index\(arg1\.worker\.top_nodes,arg1\.index\)", "Token values are created by Worker::token(i) / TokenIter with index < num_tokens; the borrow of the worker keeps top_nodes unchanged (SHARE witnesses)", None),
 ("token::Token", r"traits::index\(raw", "byte range from c2b at two node boundaries start <= end: char boundaries of the input by construction", None),
 ("Worker::<'t>::token", r"Sub\(", "API precondition i < num_tokens() (as for slice indexing); not reachable from tokenize()", None),
 ("Worker::<'t>::update_connid_counts", r"unwrap\(as_mut", "documented: panics when init_connid_counter() was never called", None),
 ("Worker::<'t>::compute_connid_probs", r"unwrap\(as_ref", "documented: panics when init_connid_counter() was never called", None),
 # ---- id statistics
 ("ConnIdCounter::add", r"index_mut", "ids of lattice nodes are verified dictionary ids (or 0); the counter was created with the connector's num_left/num_right (KIND-ARG on ConnIdCounter::new)", VERIFYIDS),
 ("ConnIdCounter::add", r"Add\(index_mut", "usize counter of evaluated connections", None),
 ("ConnIdCounter::compute_probs", r".*", "both count vectors have at least the BOS/EOS slot (a connector has >= 1 id per side), so drain(..1) is in range; the assert compares a constant", None),
 # ---- lattice construction
 ("Tokenizer::add_lattice_edges", r"index::index\(chars", "start_word < len_char (loop guard and the `start_word == len_char => break` test in build_lattice_inner)", LATTICE),
 ("Tokenizer::add_lattice_edges", r"Add\(arg5,next", "start_word + match length <= len_char: the trie is searched over the remaining text only", None),
 ("Tokenizer::add_lattice_edges", r"panicking::panic", "debug_assert!(start_word + m.end_char <= len_char): as above", None),
 ("Tokenizer::build_lattice_inner", r"Add\(var:usize,", "the position advances by 1 or by a run length of the current sentence (Sentence::groupable): positions are bounded by the sentence length", None),
 ("Lattice::reset", r"Add\(arg2,1\)", "sentence length + 1", None),
 ("Lattice::insert_bos", r"index_mut\(arg1\.ends,0\)", "reset() grew ends to len_char + 1 >= 1 elements just before", None),
 ("Lattice::insert_node", r"panicking::panic", "debug assertions start_node <= start_word < end_word: callers pass positions in that order", None),
 ("Lattice::insert_node", r"index_mut\(arg1\.ends,arg4\)", "end_word <= len_char < ends.len() (matches and unknown words stay inside the sentence)", None),
 ("Lattice::search_min_node", r"index\(arg1\.ends,arg2\)", "start_node <= len_char < ends.len()", None),
 ("Lattice::search_min_node", r"panic\(|assert_failed", "debug assertions: ends[start_node] is non-empty because build_lattice_inner processes a position only when has_previous_node(start_node) (LATTICE rule) and every processed position adds a node (UNKFALL), and EOS hangs off start_node", LATTICE),
 ("Lattice::append_top_nodes", r"unwrap\(as_ref\(arg1\.eos", "build_lattice_inner ends with insert_eos on every path (LATTICE rule); tokenize() calls append_top_nodes only after build_lattice", LATTICE),
 ("Lattice::append_top_nodes", r"index", "back-pointers (start_node, min_idx) were stored by insert_node/insert_eos from search_min_node over a non-empty ends[start_node]; min_idx < its length (known finding: more than 65535 nodes at one boundary)", LATTICE),
 ("Lattice::add_connid_counts", r"unwrap\(as_ref\(arg1\.eos", "update_connid_counts returns early for an empty sentence; otherwise tokenize() built the lattice with EOS", None),
 ("Lattice::add_connid_counts", r"index", "end_char in 1..=len_char and start_node values stored by insert_node are < ends.len()", None),
]

# Audit of the corpus -> training-lattice path (C19: tokenizer output can be fed to train).
# Input assumption, stated in the evidence: the corpus is tokenizer output, so every token has a
# non-empty surface and the tokens concatenate to the sentence.
TRAIN_RULES = [
 ("compatible_unk_index", r"Sub\(arg4,arg3\)", "end_char - start_char with end = start + surface length (caller build_lattice)", ENDSUM),
 ("compatible_unk_index", r"index\(arg1\.offsets", "base_id < number of categories (same tables as scan_entries; category ids bounded below 18)", CATE_OFFS),
 ("compatible_unk_index", r"Add\(from_u32\(base_id", "category id + 1 <= 18", None),
 ("compatible_unk_index", r"index\(arg1\.entries,next", "loop over offsets[c]..offsets[c+1] <= entries.len()", None),
 ("compatible_unk_index", r"unwrap\(try_from\(next", "word_id < entries.len() <= 65536 fits u32", UNKLEN),
 ("Trainer::build_lattice", r"bounds\(var:usize\)", "input_chars[pos]: pos is the sum of the lengths of the preceding tokens, < sentence length while a non-empty token remains (tokenizer output has no empty surface)", None),
 ("Trainer::build_lattice", r"Add\(var:usize,count", "positions inside the sentence", None),
 ("Trainer::build_lattice", r"assert_failed", "assert_eq!(pos, input_len): the sentence text is the concatenation of the token surfaces (Corpus::from_reader builds it that way: CORPUS rule)", None),
 ("Trainer::build_lattice", r"unwrap\(new\(len_char", "rucrf Lattice::new fails only for length 0; empty sentences are dropped by Corpus::from_reader (CORPUS rule)", None),
 ("Trainer::build_lattice", r"unwrap\(add_edge", "edges start < end <= sentence length: positive edges from non-empty tokens, negative edges from trie matches / unknown words inside the sentence", None),
 ("Trainer::build_lattice", r"index::index\(chars", "start_word < input_len (loop bound)", None),
 ("Trainer::build_lattice", r"Add\(next\(_\)\.word_idx\.word_id,1\)|Option::unwrap\(new\(Add", "label id = word id + 1 (NonZeroU32): word ids are < 2^32 - 1 entries", None),
 ("Trainer::build_lattice", r"Add\(next\(_\),next\(_\)\.end_char\)", "start + match length <= sentence length", None),
 ("Trainer::build_lattice", r"bounds\(next\(_\)\)|bounds\(arg1\.#1\)", "lattice.nodes()[pos]: pos < input_len + 1 = number of lattice nodes", None),
 ("Trainer::build_lattice::{closure#1}", r"Add\(arg1\.#4,arg1\.#5\)", "pos + len of the current token", None),
 ("Trainer::build_lattice::{closure#1}::{closure#1}", r"index\(arg1(\.#0|\.label_id_map_unk),from_u32", "label_id_map_unk has one entry per unk.def entry (Trainer::new); unk_index.word_id comes from compatible_unk_index", None),
 ("Trainer::build_lattice::{closure#2}", r"unwrap\(try_from\(len|Add\(", "label ids: number of lexicon words + unknown entries + 1 fits u32 (checked when the provider was filled in Trainer::new)", None),
]

# i32 sums of costs on the tokenization path: not justified (see known_findings.txt)
TOK_OPEN = [
 ("Lattice::search_min_node", r"Add\(next\(_\)\.#1\.min_cost,cost"),
 ("Lattice::insert_node", r"Add\(search_min_node"),
 ("DualConnector as", r"Add\(cost\(arg1\.matrix_connector\),accumulate_cost"),
 ("Lattice::search_min_node", r"cast\|usize->u16"),
]


def tok_entries():
    import engine, r_panic
    ctx = engine.Ctx("C10", "quick")
    keys = r_panic.tok_sites(ctx)
    entries, missing = [], []
    for k in keys:
        fn = k.split("|")[0]
        if any(sub in fn and re.search(rx, k) for sub, rx in TOK_OPEN):
            continue
        for sub, rx, reason, guard in TOK_RULES:
            if sub in fn and re.search(rx, k):
                break
        else:
            missing.append(k)
    # The tokenization-path table is kept as (function, pattern) rules, not as materialised
    # keys: a justification such as "row id*w..(id+1)*w of a table with num*w vectors" covers
    # every spelling of that row arithmetic inside the accessor.
    for sub, rx, reason, guard in TOK_RULES:
        e = {"scope": "TOK", "fn": sub, "rx": rx, "reason": reason}
        if guard:
            e["guard"] = guard
        entries.append(e)
    tkeys = r_panic.train_sites(ctx)
    for k in tkeys:
        fn = k.split("|")[0]
        if not any(sub in fn and re.search(rx, k) for sub, rx, _, _ in TRAIN_RULES):
            missing.append("TRAIN:" + k)
    for sub, rx, reason, guard in TRAIN_RULES:
        e = {"scope": "TRAIN", "fn": sub, "rx": rx, "reason": reason}
        if guard:
            e["guard"] = guard
        entries.append(e)
    return entries, missing


def main():
    import engine, r_panic
    ctx = engine.Ctx("C10", "quick")
    json.dump({"entries": []}, open(os.path.join(os.path.dirname(__file__), "panic_table.json"), "w"))
    r_panic.run(ctx)
    keys = [o.key[len("PANIC|"):] for o in ctx.obs if not o.ok]
    entries, missing = [], []
    for k in keys:
        fn = k.split("|")[0]
        for sub, rx, reason, guard in RULES:
            if sub in fn and re.search(rx, k):
                e = {"key": k, "reason": reason}
                if guard:
                    e["guard"] = guard
                entries.append(e)
                break
        else:
            missing.append(k)
    entries.append({"key": "NARROW|vibrato::dictionary::unknown::UnkHandler::scan_entries|cast|usize->u16(next(_))|0",
                    "reason": "word_id < entries.len(), and UnkHandler::from_reader rejects more than 65536 entries",
                    "guard": {"kind": "len_le", "fn": "vibrato::dictionary::unknown::UnkHandler::from_reader",
                              "local": "entries", "le": 65536,
                              "sink": {"adt": "UnkHandler", "field": "entries"}}})
    tok, tok_missing = tok_entries()
    missing += ["TOK|" + k for k in tok_missing]
    doc = {"_doc": "PANIC audit table: sites that no structural discharger covers, each with the "
                   "reason it cannot fire and, where safety rests on a check elsewhere, a guard "
                   "that is re-verified on every run. Generated by spec/gen_panic_table.py from the "
                   "audit notes; sites listed in known_findings.txt are deliberately absent.",
           "entries": entries, "patterns": tok}
    json.dump(doc, open(os.path.join(os.path.dirname(__file__), "panic_table.json"), "w"), indent=1)
    print(len(entries), "entries;", len(missing), "unjustified:")
    for m in missing:
        print("  ", m)

if __name__ == "__main__":
    main()
